#!/bin/bash
# verify_seed.sh <seed-dir>: confirm a seeded change in a scratch worktree of /repo:
#   demo passes on the unchanged tree, fails with the patch, and the 1032 existing tests pass with the patch.
# Prints one summary line; details in <seed-dir>/confirm.log.  The worktree is removed afterwards.
set -u
SD=$(readlink -f "$1"); ID=$(basename "$SD")
WT=/tmp/seedchk-$ID
export CARGO_TARGET_DIR=/tmp/seedchk-target CARGO_NET_OFFLINE=true
git -C /repo worktree remove --force "$WT" >/dev/null 2>&1
git -C /repo worktree add -q --detach "$WT" HEAD || exit 9
cp /repo/Cargo.lock "$WT/Cargo.lock" 2>/dev/null
LOG="$SD/confirm.log"; : > "$LOG"
cp "$SD/demo_mut.rs" "$WT/regexml/tests/demo_mut.rs"
( cd "$WT" && timeout 900 cargo test --offline -p regexml --test demo_mut ) >>"$LOG" 2>&1; base=$?
if ! git -C "$WT" apply "$SD/patch.diff" >>"$LOG" 2>&1; then echo "$ID: PATCH DOES NOT APPLY"; git -C /repo worktree remove --force "$WT"; exit 8; fi
( cd "$WT" && timeout 900 cargo test --offline -p regexml --test demo_mut ) >>"$LOG" 2>&1; mut=$?
( cd "$WT" && timeout 1800 cargo test --workspace --no-fail-fast --offline ) > "$SD/suite.log" 2>&1
passed=$(grep -E "^test result" "$SD/suite.log" | awk '{s+=$4} END{print s}')
failed_targets=$(grep -E "^error: test failed" "$SD/suite.log" | grep -v demo_mut | wc -l)
demo_passed_with=$(grep -A0 -E "Running tests/demo_mut.rs" -A400 "$SD/suite.log" >/dev/null; echo)
tail -5 "$SD/suite.log" >> "$LOG"; rm -f "$SD/suite.log"
git -C /repo worktree remove --force "$WT"
echo "$ID: demo_on_unchanged_rc=$base demo_with_patch_rc=$mut suite_passed_tests=$passed other_failed_targets=$failed_targets"
