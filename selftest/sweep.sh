#!/bin/bash
# sweep.sh <tier> [props...]: run the registered checks one after another, print exit code and wall time.
TIER=${1:-quick}; shift
PROPS=${@:-C01 C02 C03 C05 C06 C07 C08 C09 C11 C12 C13 C14 C15 C17 C19 C20}
cd /verif
for p in $PROPS; do
  t0=$(date +%s); ./check $p --tier $TIER > /var/tmp/sweep-$p-$TIER.log 2>&1; rc=$?; t1=$(date +%s)
  echo "$p $TIER exit=$rc wall=$((t1-t0))s $(tail -1 /var/tmp/sweep-$p-$TIER.log)"
done
