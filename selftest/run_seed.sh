#!/bin/bash
# run_seed.sh <seed-dir> <property> [harness,harness..]: run a check against a seeded change without touching /repo:
# a scratch worktree of /repo HEAD gets the patch, and the runner is pointed at it with VERIF_REPO.
set -u
SD=$(readlink -f "$1"); PROP=$2; ONLY=${3:-}
ID=$(basename "$SD"); WT=/tmp/seedrun-$ID-$PROP
git -C /repo worktree remove --force "$WT" >/dev/null 2>&1
git -C /repo worktree add -q --detach "$WT" HEAD || exit 9
cp /repo/Cargo.lock "$WT/Cargo.lock" 2>/dev/null   # Cargo.lock is git-ignored in /repo but present in its working tree
if ! git -C "$WT" apply "$SD/patch.diff"; then echo "$ID $PROP: PATCH DOES NOT APPLY"; git -C /repo worktree remove --force "$WT"; exit 8; fi
cd /verif
if [ -n "$ONLY" ]; then VERIF_REPO=$WT ./check "$PROP" --only "$ONLY" --no-evidence > "$SD/check-$PROP.log" 2>&1; else VERIF_REPO=$WT ./check "$PROP" --no-evidence > "$SD/check-$PROP.log" 2>&1; fi
rc=$?
git -C /repo worktree remove --force "$WT"
echo "$ID $PROP: exit=$rc $(grep -c '^VIOLATION' "$SD/check-$PROP.log") violation line(s); $(grep -E '^(VIOLATION|INCONCLUSIVE|CANNOT)' "$SD/check-$PROP.log" | head -3 | tr '\n' ' ')"
