#!/bin/bash
# second part of the seed matrix (same conventions as seed_matrix.sh), single lane
cd /verif
L=(
"C02-b C02 f_piece_xpath"
"C03-b C03 c_clear_beyond"
"C05-b C03 c_clear_beyond"
"C17-b C17 f_escape_xsd_n7"
"C19-b C19 c_capture_two_activations"
"C11-b C11 g_class_base_i"
"C20-a C20 b_greedyfixed_order_len2"
"C06-a C06 d_reluctant_repeat_eol_body,d_reluctant_repeat_bol_body"
"C11-a C11 f_firstset_caseless,f_firstset_letter"
"C13-b C13 a_prefix3_scan_n4"
"C07-b C07"
"C14-b C14"
"C15-b C15"
"C05-a C05"
"C06-b C06"
"C20-b C20 f_piece_xpath,a_class_single_n2,f_no_ambiguity_nullable_repeat_greedy"
"C12-b C12 a_hasbol_atom_m_n2,a_bol_hasbol_m_n2,c12_bol_eol_m"
"C01-b C01 a_hasbol_atom_m_n2"
"C08-b C08 a_hasbol_atom_m_n2,a_bol_hasbol_m_n2"
)
for e in "${L[@]}"; do
  set -- $e
  VERIF_JOBS=${SEED_JOBS:-5} ./selftest/run_seed.sh seeded/$1 $2 ${3:-}
done
