#!/usr/bin/env python3
"""Prints the section-7 table of DESIGN.md from seeded/*/meta.json (+ manual notes below)."""
import json, os, textwrap

NOTES = {
    "C01-a": "not caught: the f_no_ambiguity_nullable_* harnesses reach the changed line, but then CBMC has to build real character "
             "classes (ICU builder) and runs out of memory -> inconclusive (exit 2), no VIOLATION",
    "C02-a": "quick and thorough tiers miss it; encoded only by the unregistered deep harness a_atom3_prefix2_n4 (a prefix occurrence whose match attempt FAILS; 20 min, 23 GB alone)",
    "C08-a": "not run: CharacterClass::is_disjoint is not encoded by any registered harness (f_is_disjoint_sound, written for exactly "
             "this kind of change, needs 101 iterations of ICU's range iterator and did not finish in 57 min; it was removed)",
    "C01-b": "quick and thorough tiers miss it (N=2 cannot hold an empty line before the matching line); the unregistered deep harness a_hasbol_atom_m_n3 (31 min alone) encodes it",
    "C08-b": "same change as C01-b (independently rediscovered): missed by the registered tiers, encoded by deep a_hasbol_atom_m_n3",
    "C12-b": "same change as C01-b (independently rediscovered): missed by the registered tiers, encoded by deep a_hasbol_atom_m_n3",
}
root = "/verif/seeded"
print("| id | what was changed | needs | outcome |")
print("|---|---|---|---|")
for d in sorted(os.listdir(root)):
    mp = os.path.join(root, d, "meta.json")
    if not os.path.exists(mp):
        continue
    m = json.load(open(mp))
    summ = (m.get("summary") or "").replace("\n", " ").replace("|", "\\|")
    summ = textwrap.shorten(summ, 170, placeholder=" ...")
    needs = textwrap.shorten((m.get("what_it_needs_to_manifest") or "").replace("\n", " ").replace("|", "\\|"), 130, placeholder=" ...")
    res = m.get("checks_run_against_it", {})
    outs = []
    for prop, r in sorted(res.items()):
        if r["detected"]:
            outs.append("**caught** by `%s` (%s)" % ("`, `".join(r["violation_harnesses"]), prop))
        elif r["inconclusive"]:
            outs.append("inconclusive (%s): %s" % (prop, "; ".join(i["harness"] for i in r["inconclusive"][:3])))
        else:
            outs.append("missed (%s quick passes)" % prop)
    if d in NOTES:
        outs.append(NOTES[d])
    print("| %s | %s | %s | %s |" % (d, summ, needs, "; ".join(outs) or "not run"))
