#!/bin/bash
# seed_matrix.sh <lane>: runs every seeded change against the harnesses that encode the code it touches
# (targeted, `--only`), or against the whole quick check of its property where no harness encodes that code.
# Two lanes (0 / 1) share the list.
cd /verif
LANE=${1:-0}
L=(
"C12-a C12 c12_bol_eol_m,a_bol_hasbol_m_n2,c12_bol_eol_plain"
"C13-a C13 s_nesting_total_n5"
"C14-a C14"
"C15-a C15"
"C07-a C07 f_bracket_n6,f_piece_xpath"
"C17-a C17 f_piece_xsd,f_escape_xsd_n7,e_flags_xsd_n3"
"C03-a C03 c_reset_bol_n2,c_reset_atom_n2,c_capture_n2"
"C19-a C19 c_reset_atom_n2,c_backref_n3,c_capture_two_activations"
"C11-a C11 f_firstset_letter,f_firstset_caseless"
"C06-a C06 d_reluctant_repeat_eol_body,d_reluctant_repeat_bol_body,d_force_progress"
"C20-a C20 b_greedyfixed_order_len2,b_greedyfixed_n2"
"C05-a C05"
"C02-b C02 f_piece_xpath"
"C03-b C03 c_clear_beyond"
"C05-b C03 c_clear_beyond"
"C06-b C06"
"C07-b C07"
"C11-b C11 g_class_base_i"
"C13-b C13 a_prefix3_scan_n4"
"C14-b C14"
"C15-b C15"
"C17-b C17 f_escape_xsd_n7,f_piece_xsd"
"C19-b C19 c_capture_two_activations,c_capture_n2"
"C20-b C20 f_piece_xpath,a_class_single_n2,f_no_ambiguity_nullable_repeat_greedy"
"C12-b C12 a_hasbol_atom_m_n2,a_bol_hasbol_m_n2,c12_bol_eol_m"
"C01-b C01 a_hasbol_atom_m_n2"
"C08-b C08 a_hasbol_atom_m_n2,a_bol_hasbol_m_n2"
)
i=0
for e in "${L[@]}"; do
  if [ $((i % 2)) -eq "$LANE" ]; then
    set -- $e
    VERIF_JOBS=6 ./selftest/run_seed.sh seeded/$1 $2 ${3:-}
  fi
  i=$((i+1))
done
