#!/bin/bash
# Runs every seeded change against the check(s) of its property (quick tier unless noted).
cd /verif
run() { ./selftest/run_seed.sh seeded/$1 $2 ${3:-}; }
run C12-a C12
run C13-a C13
run C14-a C14
run C15-a C15
run C07-a C07
run C17-a C17
run C03-a C03
run C19-a C19
run C11-a C11
run C06-a C06
run C20-a C20
run C01-a C08 f_no_ambiguity_nullable_repeat_greedy,f_no_ambiguity_nullable_greedyfixed,f_no_ambiguity_nullable_unambiguous
run C01-a C01
run C05-a C05
run C02-a C02
