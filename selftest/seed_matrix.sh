#!/bin/bash
# seed_matrix.sh <lane>: runs every seeded change against the quick check of its property (two lanes share the list).
cd /verif
LANE=${1:-0}
SEEDS="C12-a:C12 C13-a:C13 C14-a:C14 C15-a:C15 C07-a:C07 C17-a:C17 C03-a:C03 C19-a:C19 C11-a:C11 C06-a:C06 C20-a:C20 C01-a:C01 C05-a:C05 C02-a:C02 C08-a:C08 C01-b:C01 C02-b:C02 C03-b:C03 C05-b:C05 C06-b:C06 C07-b:C07 C08-b:C08 C11-b:C11 C12-b:C12 C13-b:C13 C14-b:C14 C15-b:C15 C17-b:C17 C19-b:C19 C20-b:C20 C11-b:C09 C02-b:C20 C17-a:C20 C05-b:C03 C01-a:C08"
i=0
for sp in $SEEDS; do
  if [ $((i % 2)) -eq "$LANE" ]; then
    VERIF_JOBS=7 ./selftest/run_seed.sh seeded/${sp%%:*} ${sp##*:}
  fi
  i=$((i+1))
done
