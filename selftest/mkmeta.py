#!/usr/bin/env python3
"""Writes seeded/<id>/meta.json from the sub-agent's own meta, my confirmation log and the check logs."""
import json, os, re, sys, glob
root = "/verif/seeded"
for d in sorted(os.listdir(root)):
    sd = os.path.join(root, d)
    if not os.path.isdir(sd):
        continue
    am = {}
    try:
        am = json.load(open(os.path.join(sd, "agent_meta.json")))
    except Exception:
        pass
    conf = ""
    try:
        conf = open(os.path.join(sd, "confirm.log")).read()
    except OSError:
        pass
    results = {}
    for lg in sorted(glob.glob(os.path.join(sd, "check-*.log"))):
        prop = re.search(r"check-(C\d+)\.log", lg).group(1)
        txt = open(lg).read()
        viol = re.findall(r"^VIOLATION property=(\S+) replay=\S*/(\S+)\.json", txt, re.M)
        inc = re.findall(r"^INCONCLUSIVE property=\S+ harness=(\S+): (.*)$", txt, re.M)
        last = txt.strip().splitlines()[-1] if txt.strip() else ""
        results[prop] = {
            "detected": bool(viol),
            "violation_harnesses": sorted({v[1].split("-", 1)[1] for v in viol}),
            "inconclusive": [{"harness": h, "reason": r[:120]} for h, r in inc],
            "summary_line": last,
        }
    meta = {
        "id": d,
        "property": am.get("property", d.split("-")[0]),
        "written_by": "independent sub-agent given only the property text and a scratch worktree of /repo",
        "summary": am.get("summary"),
        "files_changed": am.get("files_changed"),
        "what_it_needs_to_manifest": am.get("what_it_needs_to_manifest"),
        "confirmed_by_me": {
            "how": "selftest/verify_seed.sh: fresh worktree of /repo HEAD; demo_mut.rs passes on the unchanged tree, fails with patch.diff applied; `cargo test --workspace --no-fail-fast --offline` passes with the patch (apart from demo_mut)",
            "demo_passes_on_unchanged_tree": "test result: ok" in conf.split("error: test failed")[0] if conf else None,
            "demo_fails_with_patch": "test result: FAILED" in conf,
        },
        "checks_run_against_it": results,
        "how_checks_were_run": "selftest/run_seed.sh: scratch worktree of /repo HEAD + patch, runner pointed at it with VERIF_REPO (equivalent to `git -C /repo apply`, run, `git -C /repo checkout -- .`, without touching /repo while other checks run)",
    }
    json.dump(meta, open(os.path.join(sd, "meta.json"), "w"), indent=1)
    det = [p for p, r in results.items() if r["detected"]]
    print(d, "detected by", det if det else "-", "| inconclusive:", {p: len(r["inconclusive"]) for p, r in results.items() if r["inconclusive"]})
