// ===== C12 anchors ==========================================================

//@ harness: c12_bol_eol_m
//@ props: C12 C05
//@ tier: quick
//@ bound: input <= 3 chars over all Unicode scalar values; every position 0..=len; flag m
//@ encodes: Bol::matches_iter Eol::matches_iter ReMatcher::is_new_line
#[kani::proof]
#[kani::stub(alloc::fmt::format, stub_format)]
#[kani::stub(alloc::alloc::Global::deallocate_impl_runtime, stub_dealloc)]
#[kani::stub(ahash::RandomState::new, stub_random_state)]
#[kani::unwind(5)]
pub(crate) fn c12_bol_eol_m() {
    let p = bare(Operation::from(Nothing), flags("m"));
    let mut m = ReMatcher::new(&p, "");
    let (v, len) = sym_input::<3>();
    m.search = v;
    let pos: usize = kani::any();
    kani::assume(pos <= len);
    let got_bol = Bol.matches_iter(&m, pos).next();
    let want_bol = pos == 0 || (pos < len && m.search[pos - 1] == '\n');
    let got_eol = Eol.matches_iter(&m, pos).next();
    let want_eol = pos == len || m.search[pos] == '\n';
    kani::cover!(want_bol && pos > 0, "bol after newline");
    kani::cover!(!want_bol, "bol refused");
    kani::cover!(want_eol && pos < len, "eol before newline");
    kani::cover!(!want_eol, "eol refused");
    kani::assert(opt_eq(got_bol, if want_bol { Some(pos) } else { None }), "C12.bol.m");
    kani::assert(opt_eq(got_eol, if want_eol { Some(pos) } else { None }), "C12.eol.m");
    std::mem::forget(m);
    std::mem::forget(p);
}

//@ harness: c12_bol_eol_plain
//@ props: C12 C05
//@ tier: quick
//@ bound: input <= 3 chars over all Unicode scalar values; every position 0..=len; no flag m
//@ encodes: Bol::matches_iter Eol::matches_iter
std_stubs! {
    #[kani::unwind(5)]
    pub(crate) fn c12_bol_eol_plain() {
        let p = bare(Operation::from(Nothing), flags(""));
        let mut m = ReMatcher::new(&p, "");
        let (v, len) = sym_input::<3>();
        m.search = v;
        let pos: usize = kani::any();
        kani::assume(pos <= len);
        let want_bol = pos == 0;
        let want_eol = pos == len;
        kani::cover!(!want_bol && m.search[pos - 1] == '\n', "after a newline: still refused without m");
        kani::cover!(!want_eol && m.search[pos] == '\n', "before a newline: still refused without m");
        kani::cover!(want_bol && want_eol, "empty input");
        let got_bol = Bol.matches_iter(&m, pos).next();
        let got_eol = Eol.matches_iter(&m, pos).next();
        kani::assert(opt_eq(got_bol, if want_bol { Some(pos) } else { None }), "C12.bol.plain");
        kani::assert(opt_eq(got_eol, if want_eol { Some(pos) } else { None }), "C12.eol.plain");
        std::mem::forget(m);
        std::mem::forget(p);
    }
}
