// ===== Family E: small total functions (C05, C07, C13, C17) ================

// ---- ReFlags::new -----------------------------------------------------------
fn e_flags<const N: usize>(xpath: bool) {
    let len: usize = kani::any();
    kani::assume(len <= N);
    let mut bytes = [0u8; N];
    let mut i = 0;
    while i < N {
        let b: u8 = kani::any();
        kani::assume(b < 128);
        bytes[i] = b;
        i += 1;
    }
    // ASCII bytes are valid UTF-8
    let s = unsafe { std::str::from_utf8_unchecked(&bytes[..len]) };
    // reference: [smixq]*(;[gkK]*)?   (q only in the XPath dialect)
    let mut ok = true;
    let mut after = false;
    let (mut wi, mut wm, mut ws, mut wx, mut wq) = (false, false, false, false, false);
    let mut k = 0;
    while k < N {
        if k < len && ok {
            let c = bytes[k];
            if !after {
                if c == b';' {
                    after = true;
                } else if c == b'i' {
                    wi = true;
                } else if c == b'm' {
                    wm = true;
                } else if c == b's' {
                    ws = true;
                } else if c == b'x' {
                    wx = true;
                } else if c == b'q' && xpath {
                    wq = true;
                } else {
                    ok = false;
                }
            } else if !(c == b'g' || c == b'k' || c == b'K') {
                ok = false;
            }
        }
        k += 1;
    }
    kani::cover!(ok && len == N && after, "accepted with engine options after ';'");
    kani::cover!(!ok, "rejected");
    kani::cover!(!xpath || (ok && wq), "flag q accepted (XPath)");
    kani::cover!(xpath || (!ok && len == 1 && bytes[0] == b'q'), "flag q rejected (XSD)");
    let r = ReFlags::new(s, if xpath { Language::XPath } else { Language::XSD });
    match r {
        Ok(f) => {
            kani::assert(ok, "C07.flags.accepts-only-valid-flag-strings");
            kani::assert(f.is_case_independent() == wi, "C07.flags.i");
            kani::assert(f.is_multi_line() == wm, "C07.flags.m");
            kani::assert(f.is_single_line() == ws, "C07.flags.s");
            kani::assert(f.is_allow_whitespace() == wx, "C07.flags.x");
            kani::assert(f.is_literal() == wq, "C07.flags.q");
        }
        Err(e) => {
            kani::assert(!ok, "C07.flags.accepts-every-valid-flag-string");
            kani::assert(matches!(e, Error::InvalidFlags(_)), "C05.flags.error-is-InvalidFlags");
            std::mem::forget(e);
        }
    }
}

//@ harness: e_flags_xpath_n3
//@ props: C07 C05 C13
//@ tier: quick
//@ cost: 200
//@ bound: ReFlags::new(f, XPath) for EVERY ASCII string f of <= 3 chars: Ok iff f in [smixq]*(;[gkK]*)?, each parsed flag bit, error kind
//@ encodes: ReFlags::new
std_stubs! { #[kani::unwind(6)] pub(crate) fn e_flags_xpath_n3() { e_flags::<3>(true) } }

//@ harness: e_flags_xsd_n3
//@ props: C17 C07 C05
//@ tier: quick
//@ cost: 200
//@ bound: ReFlags::new(f, XSD) for EVERY ASCII string f of <= 3 chars: as XPath but q rejected
//@ encodes: ReFlags::new
std_stubs! { #[kani::unwind(6)] pub(crate) fn e_flags_xsd_n3() { e_flags::<3>(false) } }

//@ harness: e_flags_xpath_n4
//@ props: C07 C05 C13
//@ tier: thorough
//@ cost: 900
//@ bound: ReFlags::new(f, XPath) for EVERY ASCII string f of <= 4 chars
//@ encodes: ReFlags::new
std_stubs! { #[kani::unwind(7)] pub(crate) fn e_flags_xpath_n4() { e_flags::<4>(true) } }

//@ harness: e_flags_xsd_n4
//@ props: C17 C07 C05
//@ tier: thorough
//@ cost: 900
//@ bound: ReFlags::new(f, XSD) for EVERY ASCII string f of <= 4 chars
//@ encodes: ReFlags::new
std_stubs! { #[kani::unwind(7)] pub(crate) fn e_flags_xsd_n4() { e_flags::<4>(false) } }

// ---- category name -> general category group --------------------------------
fn expected_group(a: u8, b: u8, len: usize) -> Option<icu_properties::GeneralCategoryGroup> {
    use icu_properties::GeneralCategoryGroup as G;
    if len == 1 {
        return match a {
            b'L' => Some(G::Letter),
            b'M' => Some(G::Mark),
            b'N' => Some(G::Number),
            b'P' => Some(G::Punctuation),
            b'Z' => Some(G::Separator),
            b'S' => Some(G::Symbol),
            b'C' => Some(G::Other),
            _ => None,
        };
    }
    if len != 2 {
        return None;
    }
    match (a, b) {
        (b'L', b'u') => Some(G::UppercaseLetter),
        (b'L', b'l') => Some(G::LowercaseLetter),
        (b'L', b't') => Some(G::TitlecaseLetter),
        (b'L', b'm') => Some(G::ModifierLetter),
        (b'L', b'o') => Some(G::OtherLetter),
        (b'M', b'n') => Some(G::NonspacingMark),
        (b'M', b'c') => Some(G::SpacingMark),
        (b'M', b'e') => Some(G::EnclosingMark),
        (b'N', b'd') => Some(G::DecimalNumber),
        (b'N', b'l') => Some(G::LetterNumber),
        (b'N', b'o') => Some(G::OtherNumber),
        (b'P', b'c') => Some(G::ConnectorPunctuation),
        (b'P', b'd') => Some(G::DashPunctuation),
        (b'P', b's') => Some(G::OpenPunctuation),
        (b'P', b'e') => Some(G::ClosePunctuation),
        (b'P', b'i') => Some(G::InitialPunctuation),
        (b'P', b'f') => Some(G::FinalPunctuation),
        (b'P', b'o') => Some(G::OtherPunctuation),
        (b'Z', b's') => Some(G::SpaceSeparator),
        (b'Z', b'l') => Some(G::LineSeparator),
        (b'Z', b'p') => Some(G::ParagraphSeparator),
        (b'S', b'm') => Some(G::MathSymbol),
        (b'S', b'c') => Some(G::CurrencySymbol),
        (b'S', b'k') => Some(G::ModifierSymbol),
        (b'S', b'o') => Some(G::OtherSymbol),
        (b'C', b'c') => Some(G::Control),
        (b'C', b'f') => Some(G::Format),
        (b'C', b'o') => Some(G::PrivateUse),
        (b'C', b'n') => Some(G::Unassigned),
        _ => None,
    }
}

//@ harness: e_category_names
//@ props: C07 C05
//@ tier: quick
//@ cost: 200
//@ bound: get_category_group(name) for EVERY ASCII name of <= 3 chars: Ok iff one of the 37 XSD category names (Cs excluded), and the group returned is the one the XSD table gives
//@ encodes: category::get_category_group
std_stubs! {
    #[kani::unwind(5)]
    pub(crate) fn e_category_names() {
        let len: usize = kani::any();
        kani::assume(len <= 2);
        let a: u8 = kani::any();
        let b: u8 = kani::any();
        kani::assume(a < 128 && b < 128);
        let bytes = [a, b];
        let s = unsafe { std::str::from_utf8_unchecked(&bytes[..len]) };
        let want = expected_group(a, b, len);
        kani::cover!(want.is_some() && len == 2, "two-letter category accepted");
        kani::cover!(want.is_some() && len == 1, "one-letter group accepted");
        kani::cover!(want.is_none() && len == 2 && a == b'C' && b == b's', "Cs rejected");
        match crate::category::verif_get_category_group(s) {
            Ok(g) => {
                kani::assert(matches!(want, Some(w) if w == g), "C07.category.name-maps-to-its-group");
            }
            Err(e) => {
                kani::assert(want.is_none(), "C07.category.every-valid-name-accepted");
                kani::assert(matches!(e, Error::Syntax(_)), "C05.category.error-is-Syntax");
                std::mem::forget(e);
            }
        }
    }
}

// ---- equal_case_blind --------------------------------------------------------
//@ harness: e_case_blind_logic
//@ props: C11
//@ tier: quick
//@ cost: 30
//@ bound: ReMatcher::equal_case_blind(a,b) for ALL pairs of scalar values, with simple_lowercase replaced by the arithmetic model: true iff a==b or the lowercase images are equal; symmetric; reflexive
//@ encodes: ReMatcher::equal_case_blind
std_stubs! {
    #[kani::unwind(4)]
    pub(crate) fn e_case_blind_logic() {
        let p = bare(Operation::from(Nothing), flags("i"));
        let m = ReMatcher::new(&p, "");
        let a: char = kani::any();
        let b: char = kani::any();
        kani::cover!(a != b && model_eq_ci(a, b), "distinct case counterparts");
        kani::cover!(!model_eq_ci(a, b), "unrelated characters");
        kani::assert(m.equal_case_blind(a, b) == model_eq_ci(a, b), "C11.equal-case-blind.definition");
        kani::assert(m.equal_case_blind(a, b) == m.equal_case_blind(b, a), "C11.equal-case-blind.symmetric");
        kani::assert(m.equal_case_blind(a, a), "C11.equal-case-blind.reflexive");
        std::mem::forget(m);
        std::mem::forget(p);
    }
}

//@ harness: e_icu_case_ascii
//@ props: C11
//@ tier: quick
//@ cost: 200
//@ bound: ReMatcher::equal_case_blind(a,b) with the REAL ICU simple_lowercase for all ASCII pairs (a,b): equals the arithmetic model used everywhere else
//@ encodes: ReMatcher::equal_case_blind icu_casemap::CaseMapper::simple_lowercase
icu_stubs! {
    #[kani::unwind(5)]
    pub(crate) fn e_icu_case_ascii() {
        let p = bare(Operation::from(Nothing), flags("i"));
        let m = ReMatcher::new(&p, "");
        let a: char = kani::any();
        let b: char = kani::any();
        kani::assume((a as u32) < 128 && (b as u32) < 128);
        kani::cover!(a != b && model_eq_ci(a, b), "distinct case counterparts");
        kani::cover!(!model_eq_ci(a, b), "unrelated characters");
        kani::assert(m.equal_case_blind(a, b) == model_eq_ci(a, b), "C11.icu.ascii-agrees-with-model");
        std::mem::forget(m);
        std::mem::forget(p);
    }
}

fn in_model_ranges(u: u32) -> bool {
    // ranges with one-to-one offset mappings covered by the model; irregular
    // code points (U+00B5, U+00DF, U+00FF, U+03C2, U+0130/0131, ...) are outside
    (u >= 0xC0 && u <= 0xFE && u != 0xD7 && u != 0xF7 && u != 0xDF)
        || (u >= 0x391 && u <= 0x3A9 && u != 0x3A2)
        || (u >= 0x3B1 && u <= 0x3C9 && u != 0x3C2)
        || (u >= 0x400 && u <= 0x45F)
        || (u >= 0x10400 && u <= 0x1044F)
}

//@ harness: e_icu_lower_ranges
//@ props: C11
//@ tier: thorough
//@ cost: 600
//@ bound: the REAL ICU CaseMapper::simple_lowercase(c) equals the arithmetic model for every c in Latin-1 letters, Greek, Cyrillic and Deseret ranges with one-to-one mappings (irregular code points excluded, listed in the harness)
//@ encodes: icu_casemap::CaseMapper::simple_lowercase
icu_stubs! {
    #[kani::unwind(5)]
    pub(crate) fn e_icu_lower_ranges() {
        let cm = icu_casemap::CaseMapper::new();
        let a: char = kani::any();
        kani::assume(in_model_ranges(a as u32));
        kani::cover!((a as u32) > 0x10000, "Deseret");
        kani::cover!((a as u32) < 0x100, "Latin-1");
        kani::assert(cm.simple_lowercase(a) == model_lower(a), "C11.icu.ranges-agree-with-model");
        std::mem::forget(cm);
    }
}
