// ===== Family S: verbatim source slices (C13 nesting table, C14, C15) =======
// The code under test is pasted by lib/slices.py from the CURRENT source of
// /repo on every run (modules slice_c13, slice_c14, slice_c15).

fn is_xws(c: char) -> bool {
    c == '\t' || c == '\n' || c == '\r' || c == ' '
}

// ---- C13 / C05: compute_nesting_table ---------------------------------------
fn s_nesting<const N: usize>() {
    let (v, len) = sym_arr::<N>();
    // reference for bracket-free texts: group g's parent is the innermost
    // capturing group still open when g's '(' is read
    let mut plain = true;
    let mut balanced = true;
    let mut opens = 0usize;
    let mut parent = [0usize; 8];
    let mut stk = [0usize; 8]; // open groups (0 = non-capturing marker uses cap=false)
    let mut cap = [false; 8];
    let mut sp = 0usize;
    let mut cur = [0usize; 8]; // stack of open capturing groups
    let mut csp = 0usize;
    let mut i = 0;
    while i < N {
        if i < len {
            let c = v[i];
            if c == '\\' || c == '[' || c == ']' {
                plain = false;
            }
            if c == '(' {
                let capturing = !(i + 1 < len && v[i + 1] == '?');
                cap[sp] = capturing;
                sp += 1;
                if capturing {
                    opens += 1;
                    parent[opens] = if csp == 0 { 0 } else { cur[csp - 1] };
                    cur[csp] = opens;
                    csp += 1;
                }
            } else if c == ')' {
                if sp == 0 {
                    balanced = false;
                } else {
                    sp -= 1;
                    if cap[sp] {
                        csp -= 1;
                    }
                }
            }
        }
        i += 1;
    }
    kani::cover!(len == N && v[N - 1] == '(', "text ends with an opening parenthesis");
    kani::cover!(len > 0 && v[0] == ')', "text starts with a closing parenthesis");
    kani::cover!(plain && balanced && opens == 2 && parent[2] == 1, "nested capturing groups");
    kani::cover!(plain && balanced && opens == 2 && parent[2] == 0, "sibling capturing groups");
    let t = slice_c13::run(&v[..len]);
    kani::assert(!plain || t.len() == opens, "C13.nesting-table.one-entry-per-capturing-paren");
    if plain && balanced {
        let mut g = 1;
        while g <= N {
            if g <= opens {
                kani::assert(matches!(t.get(&g), Some(pg) if *pg == parent[g]), "C03.nesting-table.parent-group");
            }
            g += 1;
        }
    }
}

// ---- C14: x-flag whitespace stripper ----------------------------------------
fn s_strip<const N: usize>() {
    let (v, len) = sym_arr::<N>();
    // reference, literally from the statement: delete TAB/LF/CR/SP outside
    // character classes, where classes are those of the text that remains
    let mut want: BVec<12> = BVec::new();
    let mut esc = false;
    let mut depth: i32 = 0;
    let mut negative = false;
    let mut removed = 0;
    let mut kept_ws_in_class = false;
    let mut i = 0;
    while i < N {
        if i < len {
            let c = v[i];
            if is_xws(c) && depth == 0 {
                removed += 1;
            } else {
                if is_xws(c) {
                    kept_ws_in_class = true;
                }
                want.push(c);
                if esc {
                    esc = false;
                } else if c == '\\' {
                    esc = true;
                } else if c == '[' {
                    depth += 1;
                } else if c == ']' {
                    depth -= 1;
                    if depth < 0 {
                        negative = true;
                    }
                }
            }
        }
        i += 1;
    }
    // a ']' with no open '[' makes the pattern invalid with or without the
    // whitespace; what the stripper does after it is outside the claim
    kani::assume(!negative);
    kani::cover!(removed == 2, "two whitespace characters removed");
    kani::cover!(kept_ws_in_class, "whitespace inside a class kept");
    kani::cover!(N < 4 || (len >= 3 && v[0] == '\\' && is_xws(v[1]) && v[2] == '[' && removed >= 2), "escape split from its bracket by whitespace, more whitespace after");
    kani::cover!(len == N && removed == 0 && v[0] == '\u{c}', "form feed is not pattern whitespace");
    let mut pat: BVec<12> = BVec::new();
    let mut i = 0;
    while i < N {
        if i < len {
            pat.push(v[i]);
        }
        i += 1;
    }
    let mut view = slice_c14::View { pattern: pat, len };
    view.run();
    let mut same = view.pattern.n == want.n;
    let mut i = 0;
    while i < N {
        if i < want.n && same && view.pattern.a[i] != want.a[i] {
            same = false;
        }
        i += 1;
    }
    kani::assert(same, "C14.strip.output-is-input-minus-whitespace-outside-classes");
    kani::assert(view.len == want.n, "C14.strip.length-field-updated");
}

// ---- C15 / C13: per-match substitution step of replace -----------------------
fn dig(c: char) -> Option<usize> {
    if c >= '0' && c <= '9' { Some((c as usize) - ('0' as usize)) } else { None }
}

fn s_expand<const N: usize>(literal: bool, n_matches: usize) {
    let (r, len) = sym_arr::<N>();
    let max_parens: usize = kani::any();
    kani::assume(max_parens >= 1 && max_parens <= 13);
    let max_capture = max_parens - 1;
    // (written out: kani::any::<[T; 13]>() is a loop that needs its own unwinding)
    let present: [bool; 13] = [
        true, kani::any(), kani::any(), kani::any(), kani::any(), kani::any(), kani::any(),
        kani::any(), kani::any(), kani::any(), kani::any(), kani::any(), kani::any(),
    ];
    let text: [char; 13] = [
        kani::any(), kani::any(), kani::any(), kani::any(), kani::any(), kani::any(), kani::any(),
        kani::any(), kani::any(), kani::any(), kani::any(), kani::any(), kani::any(),
    ];
    // ---- reference expansion, written from the statement -------------------
    let mut want: BVec<8> = BVec::new();
    let mut err = false;
    let mut simple = true;
    let mut two_digit_ref = false;
    let mut absent_ref = false;
    let mut i = 0;
    let mut steps = 0;
    while steps < N {
        if i < len && !err {
            let ch = r[i];
            if ch == '\\' {
                simple = false;
                if i + 1 < len && (r[i + 1] == '\\' || r[i + 1] == '$') {
                    want.push(r[i + 1]);
                    i += 2;
                } else {
                    err = true;
                }
            } else if ch == '$' {
                simple = false;
                let d0 = if i + 1 < len { dig(r[i + 1]) } else { None };
                match d0 {
                    None => err = true,
                    Some(d) => {
                        let mut n = d;
                        i += 2;
                        if max_capture > 9 {
                            // longest run of digits forming a number <= number of groups
                            let mut go = true;
                            let mut t = 0;
                            while t < N {
                                if go && i < len {
                                    match dig(r[i]) {
                                        Some(d2) if n * 10 + d2 <= max_capture => {
                                            n = n * 10 + d2;
                                            i += 1;
                                            two_digit_ref = true;
                                        }
                                        _ => go = false,
                                    }
                                }
                                t += 1;
                            }
                        }
                        if n <= max_capture && present[n] {
                            want.push(text[n]);
                        } else {
                            absent_ref = true;
                        }
                    }
                }
            } else {
                want.push(ch);
                i += 1;
            }
        }
        steps += 1;
    }
    kani::cover!(literal || err, "invalid replacement string");
    kani::cover!(literal || N < 3 || (!err && two_digit_ref), "two-digit group reference");
    kani::cover!(literal || (!err && absent_ref), "reference to an absent or non-existent group");
    kani::cover!(literal || (!err && simple && len == N), "metacharacter-free replacement");
    kani::cover!(!literal || (len == N && !simple), "literal replacement containing $ or backslash");
    let view = slice_c15::View {
        program: slice_c15::Prog { max_parens: Some(max_parens), flags: slice_c15::Flags { literal } },
        present,
        text,
    };
    let got = view.run(&r[..len], n_matches);
    match got {
        Ok((res, latch)) => {
            if literal {
                // (comparison written without a loop so that the unwinding bound
                // is set by the code under test only)
                let lm = if len == 0 { 1 } else { len };
                let same = res.n == len * n_matches
                    && (res.n <= 0 || res.a[0] == r[0 % lm])
                    && (res.n <= 1 || res.a[1] == r[1 % lm])
                    && (res.n <= 2 || res.a[2] == r[2 % lm])
                    && (res.n <= 3 || res.a[3] == r[3 % lm])
                    && (res.n <= 4 || res.a[4] == r[4 % lm])
                    && (res.n <= 5 || res.a[5] == r[5 % lm])
                    && (res.n <= 6 || res.a[6] == r[6 % lm])
                    && (res.n <= 7 || res.a[7] == r[7 % lm]);
                kani::assert(same, "C13.replacement.verbatim-under-flag-q");
                kani::assert(latch, "C13.replacement.latch");
            } else {
                kani::assert(!err, "C15.expand.invalid-replacement-must-be-rejected");
                let wm = if want.n == 0 { 1 } else { want.n };
                let same = res.n == want.n * n_matches
                    && (res.n <= 0 || res.a[0] == want.a[0 % wm])
                    && (res.n <= 1 || res.a[1] == want.a[1 % wm])
                    && (res.n <= 2 || res.a[2] == want.a[2 % wm])
                    && (res.n <= 3 || res.a[3] == want.a[3 % wm])
                    && (res.n <= 4 || res.a[4] == want.a[4 % wm])
                    && (res.n <= 5 || res.a[5] == want.a[5 % wm])
                    && (res.n <= 6 || res.a[6] == want.a[6 % wm])
                    && (res.n <= 7 || res.a[7] == want.a[7 % wm]);
                kani::assert(same, "C15.expand.output-follows-$N-and-backslash-rules");
                kani::assert(latch == simple, "C15.expand.simple-replacement-latch");
            }
        }
        Err(e) => {
            kani::assert(!literal && err, "C15.expand.valid-replacement-must-not-be-rejected");
            kani::assert(matches!(e, slice_c15::Error::InvalidReplacementString(_)), "C05.expand.error-kind");
            std::mem::forget(e);
        }
    }
}

//@ harness: s_nesting_total_n5
//@ props: C05 C13 C03
//@ tier: quick
//@ cost: 60
//@ slice: c13_nesting
//@ bound: body of AnalyzeIter::compute_nesting_table (verbatim slice; HashMap -> BMap, vec![x;n] -> BArr stand-ins) on EVERY text of <= 5 chars over all scalar values (what analyze does with a flag-q pattern): no panic / index error / underflow; one entry per capturing '(' and parent groups for bracket-free texts
//@ encodes: AnalyzeIter::compute_nesting_table(slice)
std_stubs! { #[kani::unwind(10)] pub(crate) fn s_nesting_total_n5() { s_nesting::<5>() } }

//@ harness: s_nesting_total_n7
//@ props: C05 C13 C03
//@ tier: thorough
//@ cost: 600
//@ slice: c13_nesting
//@ bound: body of AnalyzeIter::compute_nesting_table (verbatim slice; HashMap -> BMap, vec![x;n] -> BArr stand-ins) on EVERY text of <= 7 chars over all scalar values (what analyze does with a flag-q pattern): no panic / index error / underflow; one entry per capturing '(' and parent groups for bracket-free texts
//@ encodes: AnalyzeIter::compute_nesting_table(slice)
std_stubs! { #[kani::unwind(12)] pub(crate) fn s_nesting_total_n7() { s_nesting::<7>() } }

//@ harness: s_strip_n6
//@ props: C14
//@ tier: quick
//@ cost: 60
//@ slice: c14_strip
//@ bound: the x-flag stripper block of ReCompiler::compile (verbatim slice; Vec -> BVec stand-in) on EVERY pattern text of <= 6 chars over all scalar values without an unmatched ']': output = input minus TAB/LF/CR/SP at class depth 0 of the stripped text; nothing else removed
//@ encodes: ReCompiler::compile(x-flag-stripper-slice)
std_stubs! { #[kani::unwind(10)] pub(crate) fn s_strip_n6() { s_strip::<6>() } }

//@ harness: s_strip_n8
//@ props: C14
//@ tier: quick
//@ cost: 60
//@ slice: c14_strip
//@ bound: the x-flag stripper block of ReCompiler::compile (verbatim slice; Vec -> BVec stand-in) on EVERY pattern text of <= 8 chars over all scalar values without an unmatched ']': output = input minus TAB/LF/CR/SP at class depth 0 of the stripped text; nothing else removed
//@ encodes: ReCompiler::compile(x-flag-stripper-slice)
std_stubs! { #[kani::unwind(12)] pub(crate) fn s_strip_n8() { s_strip::<8>() } }

//@ harness: s_strip_n11
//@ props: C14
//@ tier: thorough
//@ cost: 900
//@ slice: c14_strip
//@ bound: the x-flag stripper block of ReCompiler::compile (verbatim slice; Vec -> BVec stand-in) on EVERY pattern text of <= 11 chars over all scalar values without an unmatched ']': output = input minus TAB/LF/CR/SP at class depth 0 of the stripped text; nothing else removed
//@ encodes: ReCompiler::compile(x-flag-stripper-slice)
std_stubs! { #[kani::unwind(15)] pub(crate) fn s_strip_n11() { s_strip::<11>() } }

//@ harness: s_expand_n4
//@ props: C15 C05
//@ tier: quick
//@ cost: 200
//@ slice: c15_expand
//@ bound: the per-match substitution step of ReMatcher::replace (verbatim slice; Vec -> BVec, self -> view, error messages -> unit type) for EVERY replacement text of <= 4 chars over all scalar values, 0..12 groups, each group absent or a 1-char text; one match
//@ encodes: ReMatcher::replace(substitution-step-slice)
std_stubs! { #[kani::unwind(6)] pub(crate) fn s_expand_n4() { s_expand::<4>(false, 1) } }

//@ harness: s_expand_n3_twice
//@ props: C15
//@ tier: quick
//@ cost: 200
//@ slice: c15_expand
//@ bound: the per-match substitution step of ReMatcher::replace (verbatim slice; Vec -> BVec, self -> view, error messages -> unit type) for EVERY replacement text of <= 3 chars over all scalar values, 0..12 groups, each group absent or a 1-char text; TWO consecutive matches (the simple_replacement latch is carried over)
//@ encodes: ReMatcher::replace(substitution-step-slice)
std_stubs! { #[kani::unwind(5)] pub(crate) fn s_expand_n3_twice() { s_expand::<3>(false, 2) } }

//@ harness: s_expand_literal_n3
//@ props: C13
//@ tier: quick
//@ cost: 200
//@ slice: c15_expand
//@ bound: the substitution step (verbatim slice) with flag q for EVERY replacement text of <= 3 chars over all scalar values ($ and backslash included), two consecutive matches: appended verbatim, never rejected
//@ encodes: ReMatcher::replace(substitution-step-slice)
std_stubs! { #[kani::unwind(5)] pub(crate) fn s_expand_literal_n3() { s_expand::<3>(true, 2) } }

//@ harness: s_expand_n5
//@ props: C15 C05
//@ tier: thorough
//@ cost: 900
//@ slice: c15_expand
//@ bound: the per-match substitution step of ReMatcher::replace (verbatim slice; Vec -> BVec, self -> view, error messages -> unit type) for EVERY replacement text of <= 5 chars over all scalar values, 0..12 groups, each group absent or a 1-char text; one match
//@ encodes: ReMatcher::replace(substitution-step-slice)
std_stubs! { #[kani::unwind(7)] pub(crate) fn s_expand_n5() { s_expand::<5>(false, 1) } }

//@ harness: s_expand_n4_twice
//@ props: C15
//@ tier: thorough
//@ cost: 900
//@ slice: c15_expand
//@ bound: the per-match substitution step of ReMatcher::replace (verbatim slice; Vec -> BVec, self -> view, error messages -> unit type) for EVERY replacement text of <= 4 chars over all scalar values, 0..12 groups, each group absent or a 1-char text; two consecutive matches
//@ encodes: ReMatcher::replace(substitution-step-slice)
std_stubs! { #[kani::unwind(6)] pub(crate) fn s_expand_n4_twice() { s_expand::<4>(false, 2) } }

//@ harness: s_expand_literal_n4
//@ props: C13
//@ tier: thorough
//@ cost: 600
//@ slice: c15_expand
//@ bound: the substitution step (verbatim slice) with flag q for EVERY replacement text of <= 4 chars, two consecutive matches
//@ encodes: ReMatcher::replace(substitution-step-slice)
std_stubs! { #[kani::unwind(6)] pub(crate) fn s_expand_literal_n4() { s_expand::<4>(true, 2) } }

