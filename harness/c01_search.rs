// ===== Family A: bare single-operator programs through the real search loop
// (ReMatcher::matches / match_at) against closed-form oracles.
// Serves C01 (membership), C02 (leftmost start, greedy/reluctant end),
// C08 (same programs with the compile-time shortcut fields set), C11, C13, C20.

// ---------------------------------------------------------------- Atom[c]
fn a_atom1<const N: usize>(shortcut: bool) {
    let c: char = kani::any();
    let mut p = bare(Operation::from(Atom::new(vec![c])), flags(""));
    if shortcut {
        p.prefix = Some(vec![c]);
        p.minimum_length = 1;
    }
    let mut m = ReMatcher::new(&p, "");
    let (v, len) = sym_input::<N>();
    m.search = v;
    let start: usize = kani::any();
    kani::assume(start <= len);
    let want = leftmost::<N, _>(start, len, |j| if j < len && m.search[j] == c { Some(j + 1) } else { None });
    kani::cover!(want.is_some(), "match exists");
    kani::cover!(want.is_none() && len == N, "no match in a full-length input");
    kani::cover!(matches!(want, Some((s, _)) if s > start), "match starts after the search start");
    let r = compare_search(&mut m, start, want);
    kani::assert(r.found_ok, "C01.atom1.found");
    kani::assert(r.start_ok, "C02.atom1.leftmost-start");
    kani::assert(r.end_ok, "C02.atom1.end");
    std::mem::forget(m);
    std::mem::forget(p);
}

//@ harness: a_atom1_n2
//@ props: C01 C02 C13
//@ tier: quick
//@ cost: 40
//@ bound: program Atom[c], c any scalar value; input <= 2 chars over all scalar values; search start 0..=len
//@ encodes: ReMatcher::matches ReMatcher::match_at Atom::matches_iter CaptureState::set_paren_start CaptureState::set_paren_end
std_stubs! { #[kani::unwind(5)] pub(crate) fn a_atom1_n2() { a_atom1::<2>(false) } }

//@ harness: a_atom1_n3
//@ props: C01 C02 C13
//@ tier: thorough
//@ cost: 200
//@ bound: program Atom[c], c any scalar value; input <= 3 chars over all scalar values; search start 0..=len
//@ encodes: ReMatcher::matches ReMatcher::match_at Atom::matches_iter
std_stubs! { #[kani::unwind(6)] pub(crate) fn a_atom1_n3() { a_atom1::<3>(false) } }

//@ harness: a_atom1_prefix_n2
//@ props: C08 C01
//@ tier: quick
//@ cost: 40
//@ bound: program Atom[c] with prefix=[c], minimum_length=1 (as ReProgram::new sets them); input <= 2 chars, all scalar values; start 0..=len
//@ encodes: ReMatcher::matches(prefix-scan,minimum-length) ReMatcher::match_at Atom::matches_iter
std_stubs! { #[kani::unwind(5)] pub(crate) fn a_atom1_prefix_n2() { a_atom1::<2>(true) } }

//@ harness: a_atom1_prefix_n3
//@ props: C08 C01
//@ tier: thorough
//@ cost: 200
//@ bound: program Atom[c] with prefix=[c], minimum_length=1; input <= 3 chars, all scalar values; start 0..=len
//@ encodes: ReMatcher::matches(prefix-scan,minimum-length) ReMatcher::match_at Atom::matches_iter
std_stubs! { #[kani::unwind(6)] pub(crate) fn a_atom1_prefix_n3() { a_atom1::<3>(true) } }

// ------------------------------------------------------------ Atom[c1,c2]
fn a_atom2<const N: usize>(ci: bool, shortcut: bool) {
    let c1: char = kani::any();
    let c2: char = kani::any();
    let mut p = bare(Operation::from(Atom::new(vec![c1, c2])), if ci { flags("i") } else { flags("") });
    if shortcut {
        p.prefix = Some(vec![c1, c2]);
        p.minimum_length = 2;
    }
    let mut m = ReMatcher::new(&p, "");
    let (v, len) = sym_input::<N>();
    m.search = v;
    let start: usize = kani::any();
    kani::assume(start <= len);
    let want = leftmost::<N, _>(start, len, |j| {
        if j + 2 <= len
            && (if ci { model_eq_ci(m.search[j], c1) } else { m.search[j] == c1 })
            && (if ci { model_eq_ci(m.search[j + 1], c2) } else { m.search[j + 1] == c2 })
        {
            Some(j + 2)
        } else {
            None
        }
    });
    kani::cover!(want.is_some(), "match exists");
    kani::cover!(want.is_none() && len == N, "no match in a full-length input");
    kani::cover!(!ci || (len > 0 && m.search[0] != c1 && matches!(want, Some((0, _)))), "case-variant match (flag i)");
    let r = compare_search(&mut m, start, want);
    kani::assert(r.found_ok, "C01.atom2.found");
    kani::assert(r.start_ok, "C02.atom2.leftmost-start");
    kani::assert(r.end_ok, "C02.atom2.end");
    std::mem::forget(m);
    std::mem::forget(p);
}

//@ harness: a_atom2_n2
//@ props: C01 C02 C11 C13
//@ tier: quick
//@ cost: 60
//@ bound: program Atom[c1,c2] without flag i, c1,c2 any scalar values (metacharacters included); input <= 2 chars over all scalar values; start 0..=len
//@ encodes: ReMatcher::matches ReMatcher::match_at Atom::matches_iter
std_stubs! { #[kani::unwind(5)] pub(crate) fn a_atom2_n2() { a_atom2::<2>(false, false) } }

//@ harness: a_atom2_n3
//@ props: C01 C02 C11 C13
//@ tier: thorough
//@ cost: 300
//@ bound: program Atom[c1,c2] without flag i; input <= 3 chars over all scalar values; start 0..=len
//@ encodes: ReMatcher::matches ReMatcher::match_at Atom::matches_iter
std_stubs! { #[kani::unwind(6)] pub(crate) fn a_atom2_n3() { a_atom2::<3>(false, false) } }

//@ harness: a_atom2_i_n2
//@ props: C01 C11 C13
//@ tier: quick
//@ cost: 80
//@ bound: program Atom[c1,c2] with flag i; all scalar values; case mapping = arithmetic model (stub), tied to ICU by c11_icu_*; input <= 2 chars; start 0..=len
//@ encodes: ReMatcher::matches ReMatcher::match_at Atom::matches_iter ReMatcher::equal_case_blind
std_stubs! { #[kani::unwind(5)] pub(crate) fn a_atom2_i_n2() { a_atom2::<2>(true, false) } }

//@ harness: a_atom2_i_n3
//@ props: C01 C11 C13
//@ tier: thorough
//@ cost: 300
//@ bound: program Atom[c1,c2] with flag i; all scalar values, case mapping = arithmetic model (stub); input <= 3 chars; start 0..=len
//@ encodes: ReMatcher::matches ReMatcher::match_at Atom::matches_iter ReMatcher::equal_case_blind
std_stubs! { #[kani::unwind(6)] pub(crate) fn a_atom2_i_n3() { a_atom2::<3>(true, false) } }

//@ harness: a_atom2_prefix_n2
//@ props: C08 C01
//@ tier: quick
//@ cost: 60
//@ bound: program Atom[c1,c2] with prefix=[c1,c2], minimum_length=2, no flag i; all scalar values; input <= 2 chars; start 0..=len
//@ encodes: ReMatcher::matches(prefix-scan,minimum-length) ReMatcher::match_at Atom::matches_iter
std_stubs! { #[kani::unwind(5)] pub(crate) fn a_atom2_prefix_n2() { a_atom2::<2>(false, true) } }

//@ harness: a_atom2_prefix_n3
//@ props: C08 C01
//@ tier: thorough
//@ cost: 300
//@ bound: program Atom[c1,c2] with prefix/minimum_length set, no flag i; all scalar values; input <= 3 chars
//@ encodes: ReMatcher::matches(prefix-scan,minimum-length) ReMatcher::match_at Atom::matches_iter
std_stubs! { #[kani::unwind(6)] pub(crate) fn a_atom2_prefix_n3() { a_atom2::<3>(false, true) } }

//@ harness: a_atom2_prefix_i_n2
//@ props: C08 C11
//@ tier: quick
//@ cost: 80
//@ bound: program Atom[c1,c2] with prefix/minimum_length set, flag i; all scalar values, case mapping = arithmetic model (stub); input <= 2 chars; start 0..=len
//@ encodes: ReMatcher::matches(case-blind-prefix-scan) ReMatcher::match_at Atom::matches_iter ReMatcher::equal_case_blind
std_stubs! { #[kani::unwind(5)] pub(crate) fn a_atom2_prefix_i_n2() { a_atom2::<2>(true, true) } }

//@ harness: a_atom2_prefix_i_n3
//@ props: C08 C11
//@ tier: thorough
//@ cost: 300
//@ bound: program Atom[c1,c2] with prefix/minimum_length set, flag i; all scalar values, case mapping = arithmetic model (stub); input <= 3 chars; start 0..=len
//@ encodes: ReMatcher::matches(case-blind-prefix-scan) ReMatcher::match_at Atom::matches_iter ReMatcher::equal_case_blind
std_stubs! { #[kani::unwind(6)] pub(crate) fn a_atom2_prefix_i_n3() { a_atom2::<3>(true, true) } }

// -------------------------------------------------- CharClass (static list)
// kind 0: '.' without s  = complement of {LF, CR};  kind 1: [a-c];  kind 2: \s;  kind 3: '.' with s (all)
fn class_of(kind: u8) -> CharacterClass {
    match kind {
        0 => static_class(&[0x0, 0xA, 0xB, 0xD, 0xE, 0x110000]),
        1 => static_class(&[0x61, 0x64]),
        2 => static_class(&[0x9, 0xB, 0xD, 0xE, 0x20, 0x21]),
        _ => CharacterClass::all(),
    }
}
fn in_class(kind: u8, x: char) -> bool {
    match kind {
        0 => x != '\n' && x != '\r',
        1 => x >= 'a' && x <= 'c',
        2 => x == '\t' || x == '\n' || x == '\r' || x == ' ',
        _ => true,
    }
}

fn a_class<const N: usize>(kind: u8, shortcut: bool) {
    let mut p = bare(Operation::from(CharClass::new(class_of(kind))), flags(""));
    if shortcut {
        p.initial_char_class = Some(class_of(kind));
        p.minimum_length = 1;
    }
    let mut m = ReMatcher::new(&p, "");
    let (v, len) = sym_input::<N>();
    m.search = v;
    let start: usize = kani::any();
    kani::assume(start <= len);
    let want = leftmost::<N, _>(start, len, |j| if j < len && in_class(kind, m.search[j]) { Some(j + 1) } else { None });
    kani::cover!(want.is_some(), "match exists");
    kani::cover!(want.is_none() && len > start || kind == 3, "no member in a non-empty rest");
    kani::cover!(matches!(want, Some((s, _)) if s > start) || kind == 3, "non-member skipped first");
    let r = compare_search(&mut m, start, want);
    kani::assert(r.found_ok, "C01.class.found");
    kani::assert(r.start_ok, "C02.class.leftmost-start");
    kani::assert(r.end_ok, "C02.class.end");
    std::mem::forget(m);
    std::mem::forget(p);
}

//@ harness: a_class_dot_n2
//@ props: C01 C02 C12
//@ tier: quick
//@ cost: 60
//@ bound: program CharClass(complement of {LF,CR}) = '.' without flag s, static inversion list; input <= 2 chars, all scalar values; start 0..=len
//@ encodes: ReMatcher::matches ReMatcher::match_at CharClass::matches_iter CharacterClass::contains
std_stubs! { #[kani::unwind(8)] pub(crate) fn a_class_dot_n2() { a_class::<2>(0, false) } }

//@ harness: a_class_dots_n2
//@ props: C01 C12
//@ tier: quick
//@ cost: 60
//@ bound: program CharClass(all) = '.' with flag s; input <= 2 chars, all scalar values; start 0..=len
//@ encodes: ReMatcher::matches ReMatcher::match_at CharClass::matches_iter CharacterClass::contains CharacterClass::all
std_stubs! { #[kani::unwind(8)] pub(crate) fn a_class_dots_n2() { a_class::<2>(3, false) } }

//@ harness: a_class_range_n2
//@ props: C01 C02
//@ tier: quick
//@ cost: 60
//@ bound: program CharClass([a-c]) static list; input <= 2 chars, all scalar values; start 0..=len
//@ encodes: ReMatcher::matches ReMatcher::match_at CharClass::matches_iter CharacterClass::contains
std_stubs! { #[kani::unwind(8)] pub(crate) fn a_class_range_n2() { a_class::<2>(1, false) } }

//@ harness: a_class_space_n3
//@ props: C01 C02
//@ tier: thorough
//@ cost: 200
//@ bound: program CharClass(\s = {TAB,LF,CR,SP}) static list; input <= 3 chars, all scalar values; start 0..=len
//@ encodes: ReMatcher::matches ReMatcher::match_at CharClass::matches_iter CharacterClass::contains
std_stubs! { #[kani::unwind(8)] pub(crate) fn a_class_space_n3() { a_class::<3>(2, false) } }

//@ harness: a_class_dot_n3
//@ props: C01 C02 C12
//@ tier: thorough
//@ cost: 200
//@ bound: program CharClass('.' without s); input <= 3 chars, all scalar values; start 0..=len
//@ encodes: ReMatcher::matches ReMatcher::match_at CharClass::matches_iter CharacterClass::contains
std_stubs! { #[kani::unwind(8)] pub(crate) fn a_class_dot_n3() { a_class::<3>(0, false) } }

//@ harness: a_class_range_first_n2
//@ props: C08 C01
//@ tier: quick
//@ cost: 60
//@ bound: program CharClass([a-c]) with initial_char_class=[a-c], minimum_length=1 (as ReProgram::new sets them); input <= 2 chars, all scalar values; start 0..=len
//@ encodes: ReMatcher::matches(first-character-filter,minimum-length) ReMatcher::match_at CharClass::matches_iter
std_stubs! { #[kani::unwind(8)] pub(crate) fn a_class_range_first_n2() { a_class::<2>(1, true) } }

//@ harness: a_class_dot_first_n3
//@ props: C08 C12
//@ tier: thorough
//@ cost: 200
//@ bound: program CharClass('.') with initial_char_class and minimum_length set; input <= 3 chars, all scalar values; start 0..=len
//@ encodes: ReMatcher::matches(first-character-filter,minimum-length) ReMatcher::match_at CharClass::matches_iter
std_stubs! { #[kani::unwind(8)] pub(crate) fn a_class_dot_first_n3() { a_class::<3>(0, true) } }

// ------------------------------------- one-character class == literal (C20)
//@ harness: a_class_single_n2
//@ props: C20 C01
//@ tier: quick
//@ cost: 80
//@ bound: program CharClass({c}) (static list [c,c+1)), c any scalar value: same matches/spans as the literal c (oracle of a_atom1); input <= 2 chars over all scalar values; start 0..=len
//@ encodes: ReMatcher::matches ReMatcher::match_at CharClass::matches_iter CharacterClass::contains
std_stubs! {
    #[kani::unwind(8)]
    pub(crate) fn a_class_single_n2() {
        let c: char = kani::any();
        let lo = c as u32;
        let p = bare(Operation::from(CharClass::new(static_class(&[lo, lo + 1]))), flags(""));
        let mut m = ReMatcher::new(&p, "");
        let (v, len) = sym_input::<2>();
        m.search = v;
        let start: usize = kani::any();
        kani::assume(start <= len);
        let want = leftmost::<2, _>(start, len, |j| if j < len && m.search[j] == c { Some(j + 1) } else { None });
        kani::cover!(want.is_some(), "match exists");
        kani::cover!(want.is_none() && len == 2, "no match in a full-length input");
        let r = compare_search(&mut m, start, want);
        kani::assert(r.found_ok && r.start_ok && r.end_ok, "C20.one-char-class-equals-literal");
        std::mem::forget(m);
        std::mem::forget(p);
    }
}

// ------------------- prefix scan where the prefix is a PROPER prefix (C08, C02)
// Models Sequence[Atom(prefix), rest]: every match starts with the prefix but a
// prefix occurrence need not be a match; self-overlapping prefixes included.
fn a_atom3_prefix2<const N: usize>(ci: bool) {
    let c1: char = kani::any();
    let c2: char = kani::any();
    let c3: char = kani::any();
    let mut p = bare(Operation::from(Atom::new(vec![c1, c2, c3])), if ci { flags("i") } else { flags("") });
    p.prefix = Some(vec![c1, c2]);
    p.minimum_length = 3;
    let mut m = ReMatcher::new(&p, "");
    let (v, len) = sym_input::<N>();
    m.search = v;
    let start: usize = kani::any();
    kani::assume(start <= len);
    let eq = |a: char, b: char| if ci { model_eq_ci(a, b) } else { a == b };
    let want = leftmost::<N, _>(start, len, |j| {
        if j + 3 <= len && eq(m.search[j], c1) && eq(m.search[j + 1], c2) && eq(m.search[j + 2], c3) {
            Some(j + 3)
        } else {
            None
        }
    });
    kani::cover!(matches!(want, Some((1, _))) && start == 0 && eq(m.search[0], c1) && eq(m.search[1], c2),
        "prefix occurs at 0 without a match there, match at 1 overlaps it");
    kani::cover!(want.is_none() && len == N, "no match in a full-length input");
    let r = compare_search(&mut m, start, want);
    kani::assert(r.found_ok, "C08.prefix-scan.found");
    kani::assert(r.start_ok, "C02.prefix-scan.leftmost-start");
    kani::assert(r.end_ok, "C02.prefix-scan.end");
    std::mem::forget(m);
    std::mem::forget(p);
}

//@ harness: a_atom3_prefix2_n4
//@ rss: 26
//@ props: C08 C02 C01
//@ tier: deep
//@ mem: 30
//@ timeout: 3000
//@ cost: 3000
//@ bound: program Atom[c1,c2,c3] with prefix=[c1,c2] (a proper, possibly self-overlapping prefix), minimum_length=3; all scalar values; input <= 4 chars; start 0..=len
//@ encodes: ReMatcher::matches(prefix-scan,minimum-length) ReMatcher::match_at Atom::matches_iter
std_stubs! { #[kani::unwind(7)] pub(crate) fn a_atom3_prefix2_n4() { a_atom3_prefix2::<4>(false) } }

// ----------------------------------------- start-anchor fast path (C08, C12)
fn a_bol_hasbol<const N: usize>(multi: bool) {
    let mut p = bare(Operation::from(Bol), if multi { flags("m") } else { flags("") });
    p.optimization_flags = OPT_HASBOL;
    let mut m = ReMatcher::new(&p, "");
    let (v, len) = sym_input::<N>();
    m.search = v;
    let start: usize = kani::any();
    kani::assume(start <= len);
    let want = leftmost::<N, _>(start, len, |j| {
        if j == 0 || (multi && j < len && m.search[j - 1] == '\n') { Some(j) } else { None }
    });
    kani::cover!(!multi || N < 3 || matches!(want, Some((s, _)) if s > start), "line start found after the search start (flag m)");
    kani::cover!(!multi || matches!(want, Some((s, _)) if s > 0), "match at a line start after a newline (flag m)");
    kani::cover!(want.is_none() && len > 0 && m.search[len - 1] == '\n' || !multi, "only a final newline follows: no match");
    kani::cover!(want.is_none(), "no match");
    let r = compare_search(&mut m, start, want);
    kani::assert(r.found_ok, "C12.hasbol.found");
    kani::assert(r.start_ok && r.end_ok, "C12.hasbol.position");
    std::mem::forget(m);
    std::mem::forget(p);
}

//@ harness: a_bol_hasbol_m_n3
//@ rss: 10
//@ props: C12 C08
//@ tier: thorough
//@ cost: 900
//@ bound: program Bol with OPT_HASBOL, flag m (start-anchor fast path with newline seeking); input <= 3 chars over all scalar values; start 0..=len
//@ encodes: ReMatcher::matches(OPT_HASBOL-path,line-seeking) ReMatcher::match_at Bol::matches_iter
std_stubs! { #[kani::unwind(7)] pub(crate) fn a_bol_hasbol_m_n3() { a_bol_hasbol::<3>(true) } }

//@ harness: a_bol_hasbol_m_n2
//@ props: C12 C08
//@ tier: quick
//@ cost: 200
//@ bound: program Bol with OPT_HASBOL, flag m (start-anchor fast path with newline seeking); input <= 2 chars over all scalar values; start 0..=len
//@ encodes: ReMatcher::matches(OPT_HASBOL-path,line-seeking) ReMatcher::match_at Bol::matches_iter
std_stubs! { #[kani::unwind(6)] pub(crate) fn a_bol_hasbol_m_n2() { a_bol_hasbol::<2>(true) } }

//@ harness: a_bol_hasbol_n3
//@ props: C12 C08
//@ tier: quick
//@ cost: 100
//@ bound: program Bol with OPT_HASBOL, no flag m; input <= 3 chars over all scalar values; start 0..=len
//@ encodes: ReMatcher::matches(OPT_HASBOL-path) ReMatcher::match_at Bol::matches_iter
std_stubs! { #[kani::unwind(7)] pub(crate) fn a_bol_hasbol_n3() { a_bol_hasbol::<3>(false) } }

// ---- start-anchor fast path as a scan schedule (C08, C12) -------------------
// Program = Atom[c] with OPT_HASBOL, flag m: the fast path promises to try the
// search start itself and then every line start behind it (a position after a
// newline that is not the last character), in increasing order.  Unlike a bare
// `^`, this program can FAIL at a line start, so the line-seeking loop has to
// carry on correctly after a failed attempt (empty lines included).
fn a_hasbol_atom<const N: usize>(from_zero: bool) {
    let c: char = kani::any();
    let mut p = bare(Operation::from(Atom::new(vec![c])), flags("m"));
    p.optimization_flags = OPT_HASBOL;
    let mut m = ReMatcher::new(&p, "");
    let (v, len) = sym_input::<N>();
    m.search = v;
    let start: usize = if from_zero { 0 } else { kani::any() };
    kani::assume(start <= len);
    let want = leftmost::<N, _>(start, len, |j| {
        let tried = j == start || (j > start && j < len && m.search[j - 1] == '\n');
        if tried && j < len && m.search[j] == c { Some(j + 1) } else { None }
    });
    kani::cover!(N < 3 || !from_zero || (matches!(want, Some((2, _))) && m.search[0] == '\n' && m.search[1] == '\n'),
        "match on the line after an empty line");
    kani::cover!(want.is_none() && len == N, "no line start matches");
    kani::cover!(matches!(want, Some((s, _)) if s == start), "match at the search start itself");
    let r = compare_search(&mut m, start, want);
    kani::assert(r.found_ok, "C12.hasbol-scan.every-line-start-is-tried");
    kani::assert(r.start_ok && r.end_ok, "C12.hasbol-scan.leftmost-line-start");
    std::mem::forget(m);
    std::mem::forget(p);
}

//@ harness: a_hasbol_atom_m_n3
//@ rss: 24
//@ props: C12 C08 C01
//@ tier: deep
//@ cost: 3000
//@ timeout: 3400
//@ mem: 30
//@ bound: program Atom[c] with OPT_HASBOL, flag m (line-seeking loop after failed attempts); c any scalar value; input <= 3 chars over all scalar values; search from position 0
//@ encodes: ReMatcher::matches(OPT_HASBOL-path,line-seeking) ReMatcher::match_at Atom::matches_iter
std_stubs! { #[kani::unwind(8)] pub(crate) fn a_hasbol_atom_m_n3() { a_hasbol_atom::<3>(true) } }

//@ harness: a_hasbol_atom_m_n2
//@ props: C12 C08 C01
//@ tier: quick
//@ cost: 300
//@ bound: program Atom[c] with OPT_HASBOL, flag m; input <= 2 chars over all scalar values; start 0..=len
//@ encodes: ReMatcher::matches(OPT_HASBOL-path,line-seeking) ReMatcher::match_at Atom::matches_iter
std_stubs! { #[kani::unwind(7)] pub(crate) fn a_hasbol_atom_m_n2() { a_hasbol_atom::<2>(false) } }

// ---- prefix scan on a three-character literal (what flag q compiles to) ------
// op = Nothing keeps match_at cheap: the subject is the comparison loop of the
// prefix scan (partial matches of a self-overlapping literal must not make it
// skip candidate starts).
fn a_prefix3_scan<const N: usize>(ci: bool) {
    let c1: char = kani::any();
    let c2: char = kani::any();
    let c3: char = kani::any();
    let mut p = bare(Operation::from(Nothing), if ci { flags("i") } else { flags("") });
    p.prefix = Some(vec![c1, c2, c3]);
    p.minimum_length = 3;
    let mut m = ReMatcher::new(&p, "");
    let (v, len) = sym_input::<N>();
    m.search = v;
    let start: usize = kani::any();
    kani::assume(start <= len);
    let eq = |a: char, b: char| if ci { model_eq_ci(a, b) } else { a == b };
    let want = leftmost::<N, _>(start, len, |j| {
        if j + 3 <= len && eq(m.search[j], c1) && eq(m.search[j + 1], c2) && eq(m.search[j + 2], c3) { Some(j) } else { None }
    });
    kani::cover!(N < 4 || (matches!(want, Some((1, _))) && start == 0 && eq(m.search[0], c1) && eq(m.search[1], c2)),
        "occurrence at 1 overlapped by a two-character partial match at 0");
    kani::cover!(want.is_none() && len == N, "literal does not occur");
    let r = compare_search(&mut m, start, want);
    kani::assert(r.found_ok, "C13.prefix-scan.finds-every-occurrence");
    kani::assert(r.start_ok && r.end_ok, "C02.prefix-scan.leftmost-occurrence");
    std::mem::forget(m);
    std::mem::forget(p);
}

//@ harness: a_prefix3_scan_n4
//@ rss: 18
//@ props: C13 C08
//@ tier: quick
//@ mem: 26
//@ cost: 900
//@ bound: program with prefix=[c1,c2,c3] (all scalar values, self-overlapping literals included), operation Nothing, minimum_length=3; input <= 4 chars over all scalar values; start 0..=len: found iff the literal occurs at or after start, at its leftmost occurrence
//@ encodes: ReMatcher::matches(prefix-scan,minimum-length) ReMatcher::match_at
std_stubs! { #[kani::unwind(8)] pub(crate) fn a_prefix3_scan_n4() { a_prefix3_scan::<4>(false) } }

//@ harness: a_prefix3_scan_i_n4
//@ rss: 22
//@ props: C13 C08 C11
//@ tier: thorough
//@ cost: 900
//@ bound: the same with flag i (case-blind comparison loop, arithmetic case model)
//@ encodes: ReMatcher::matches(case-blind-prefix-scan) ReMatcher::equal_case_blind
std_stubs! { #[kani::unwind(8)] pub(crate) fn a_prefix3_scan_i_n4() { a_prefix3_scan::<4>(true) } }
