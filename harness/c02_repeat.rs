// ===== Family B: repetition operators over a one-character body ============
// kind 0 GreedyFixed, 1 ReluctantFixed, 2 UnambiguousRepeat, 3 reluctant variable Repeat
fn rep_op(kind: u8, c: char, min: usize, max: usize) -> Operation {
    let child = Operation::from(Atom::new(vec![c]));
    match kind {
        0 => Operation::from(GreedyFixed::new(child, min, max, 1)),
        1 => Operation::from(ReluctantFixed::new(child, min, max, 1)),
        2 => Operation::from(UnambiguousRepeat::new(child, min, max)),
        _ => Operation::from(Repeat::new(child, min, max, false)),
    }
}

/// (min,max) drawn from the quantifier shapes ?, *, +, {2}, {2,3}, {1,2}, {0,2}.
fn small_bounds() -> (usize, usize) {
    let min: usize = kani::any();
    let max: usize = kani::any();
    kani::assume(min <= 2);
    kani::assume(max == usize::MAX || (max >= 1 && max <= 3));
    kani::assume(min <= max);
    (min, max)
}

fn b_rep_search<const N: usize>(kind: u8, shortcut: bool) {
    let c: char = kani::any();
    let (min, max) = small_bounds();
    if kind == 3 {
        kani::assume(max == usize::MAX);
    }
    let mut p = bare(rep_op(kind, c, min, max), flags(""));
    if shortcut {
        p.minimum_length = min;
    }
    let mut m = ReMatcher::new(&p, "");
    let (v, len) = sym_input::<N>();
    m.search = v;
    let start: usize = kani::any();
    kani::assume(start <= len);
    let greedy = kind == 0 || kind == 2;
    let want = leftmost::<N, _>(start, len, |j| {
        let run = run_of::<N>(&m.search, len, j, c);
        if run >= min {
            Some(j + if greedy { umin(run, max) } else { min })
        } else {
            None
        }
    });
    kani::cover!(want.is_none(), "no match (run shorter than min everywhere)");
    kani::cover!(matches!(want, Some((s, e)) if e > s + 1), "match of two or more repetitions");
    kani::cover!(matches!(want, Some((s, e)) if e == s), "empty match");
    kani::cover!(matches!(want, Some((s, _)) if s > start), "match starts after the search start");
    let r = compare_search(&mut m, start, want);
    kani::assert(r.found_ok, "C01.repeat.found");
    kani::assert(r.start_ok, "C02.repeat.leftmost-start");
    kani::assert(r.end_ok, "C02.repeat.greedy-longest/reluctant-shortest-end");
    std::mem::forget(m);
    std::mem::forget(p);
}

//@ harness: b_greedyfixed_n2
//@ props: C01 C02 C20
//@ tier: quick
//@ cost: 200
//@ bound: program GreedyFixed(Atom[c],min,max,len=1), c any scalar value, min<=2, max in {1,2,3,unbounded}, min<=max; input <= 2 chars over all scalar values; start 0..=len
//@ encodes: ReMatcher::matches ReMatcher::match_at GreedyFixed::matches_iter IntStepIterator::next Atom::matches_iter
std_stubs! { #[kani::unwind(6)] pub(crate) fn b_greedyfixed_n2() { b_rep_search::<2>(0, false) } }

//@ harness: b_greedyfixed_minlen_n2
//@ props: C08
//@ tier: quick
//@ cost: 200
//@ bound: same as b_greedyfixed_n2 with minimum_length=min (as ReProgram::new derives it)
//@ encodes: ReMatcher::matches(minimum-length) ReMatcher::match_at GreedyFixed::matches_iter
std_stubs! { #[kani::unwind(6)] pub(crate) fn b_greedyfixed_minlen_n2() { b_rep_search::<2>(0, true) } }

//@ harness: b_reluctantfixed_n2
//@ props: C01 C02 C20
//@ tier: quick
//@ cost: 200
//@ bound: program ReluctantFixed(Atom[c],min,max,1), min<=2, max in {1,2,3,unbounded}; input <= 2 chars over all scalar values; start 0..=len
//@ encodes: ReMatcher::matches ReMatcher::match_at ReluctantFixed::matches_iter ReluctantFixedIterator::next Atom::matches_iter
std_stubs! { #[kani::unwind(6)] pub(crate) fn b_reluctantfixed_n2() { b_rep_search::<2>(1, false) } }

//@ harness: b_unambiguous_n2
//@ props: C01 C02 C20
//@ tier: quick
//@ cost: 200
//@ bound: program UnambiguousRepeat(Atom[c],min,max), min<=2, max in {1,2,3,unbounded}; input <= 2 chars over all scalar values; start 0..=len
//@ encodes: ReMatcher::matches ReMatcher::match_at UnambiguousRepeat::matches_iter Atom::matches_iter
std_stubs! { #[kani::unwind(6)] pub(crate) fn b_unambiguous_n2() { b_rep_search::<2>(2, false) } }

//@ harness: b_reluctantrepeat_n2
//@ props: C01 C02 C06
//@ tier: quick
//@ cost: 300
//@ bound: program reluctant variable Repeat(Atom[c],min<=2,unbounded); input <= 2 chars over all scalar values; start 0..=len; every loop bounded by unwinding assertions
//@ encodes: ReMatcher::matches ReMatcher::match_at Repeat::matches_iter ReluctantRepeatIterator::next ForceProgressIterator::next Atom::matches_iter
std_stubs! { #[kani::unwind(6)] pub(crate) fn b_reluctantrepeat_n2() { b_rep_search::<2>(3, false) } }

// ---- full yield order of the fixed-length repeat iterators (C02) ----------
fn b_yield_order<const N: usize>(kind: u8) {
    let c: char = kani::any();
    let (min, max) = small_bounds();
    let op = rep_op(kind, c, min, max);
    let p = bare(Operation::from(Nothing), flags(""));
    let mut m = ReMatcher::new(&p, "");
    let (v, len) = sym_input::<N>();
    m.search = v;
    let pos: usize = kani::any();
    kani::assume(pos <= len);
    let run = run_of::<N>(&m.search, len, pos, c);
    let top = umin(run, max);
    kani::cover!(run >= min && top > min, "more than one admissible repetition count");
    kani::cover!(run < min, "no admissible count");
    let mut it = op.matches_iter(&m, pos);
    let mut ok = true;
    let mut k = 0;
    // expected sequence: greedy  pos+top, pos+top-1, .., pos+min ; reluctant pos+min, .., pos+top ; then None
    while k <= N + 1 {
        let got = it.next();
        let want = if run >= min && min + k <= top {
            Some(if kind == 0 { pos + top - k } else { pos + min + k })
        } else {
            None
        };
        if !opt_eq(got, want) {
            ok = false;
        }
        k += 1;
    }
    kani::assert(ok, "C02.fixed-repeat.yield-order");
    std::mem::forget(it);
    std::mem::forget(op);
    std::mem::forget(m);
    std::mem::forget(p);
}

//@ harness: b_greedyfixed_order_n3
//@ props: C02 C06
//@ tier: quick
//@ cost: 200
//@ bound: GreedyFixed(Atom[c],min<=2,max in {1,2,3,unbounded},1).matches_iter at every position of every input <= 3 chars: complete yield sequence (strictly descending, then None forever for 5 calls)
//@ encodes: GreedyFixed::matches_iter IntStepIterator::next Atom::matches_iter
std_stubs! { #[kani::unwind(7)] pub(crate) fn b_greedyfixed_order_n3() { b_yield_order::<3>(0) } }

//@ harness: b_reluctantfixed_order_n3
//@ props: C02 C06
//@ tier: quick
//@ cost: 200
//@ bound: ReluctantFixed(Atom[c],min<=2,max in {1,2,3,unbounded},1).matches_iter at every position of every input <= 3 chars: complete yield sequence (strictly ascending, then None for 5 calls)
//@ encodes: ReluctantFixed::matches_iter ReluctantFixedIterator::next ReMatcher::clear_captured_groups_beyond Atom::matches_iter
std_stubs! { #[kani::unwind(7)] pub(crate) fn b_reluctantfixed_order_n3() { b_yield_order::<3>(1) } }

// ---- arithmetic of the repeat operators for full-width bounds (C05) --------
fn b_bounds_full(kind: u8, two: bool) {
    let c1: char = kani::any();
    let c2: char = kani::any();
    let min: usize = kani::any();
    let max: usize = kani::any();
    kani::assume(min <= max && max >= 1);
    kani::cover!(min == 0, "min zero");
    let blen = if two { 2 } else { 1 };
    let child = Operation::from(Atom::new(if two { vec![c1, c2] } else { vec![c1] }));
    let op = match kind {
        0 => Operation::from(GreedyFixed::new(child, min, max, blen)),
        1 => Operation::from(ReluctantFixed::new(child, min, max, blen)),
        2 => Operation::from(UnambiguousRepeat::new(child, min, max)),
        _ => Operation::from(Repeat::new(child, min, max, false)),
    };
    let p = bare(Operation::from(Nothing), flags(""));
    let mut m = ReMatcher::new(&p, "");
    let (v, len) = sym_input::<2>();
    m.search = v;
    let pos: usize = kani::any();
    kani::assume(pos <= len);
    // number of body matches available from pos (0, 1 or 2 within 2 chars)
    let mut run = 0;
    if two {
        if pos + 2 <= len && m.search[pos] == c1 && m.search[pos + 1] == c2 {
            run = 1;
        }
    } else {
        run = run_of::<2>(&m.search, len, pos, c1);
    }
    kani::cover!(max > (usize::MAX / 2) && max < usize::MAX, "huge finite max");
    kani::cover!(min > (usize::MAX / 2), "huge min");
    kani::cover!(run >= min && run > 0, "non-empty first yield");
    let first = op.matches_iter(&m, pos).next();
    let greedy = kind == 0 || kind == 2;
    let want = if run >= min { Some(pos + blen * if greedy { umin(run, max) } else { min }) } else { None };
    kani::assert(opt_eq(first, want), "C05.repeat-bounds.first-yield");
    // static length facts used by the compiler: must not overflow either
    let ml = op.get_match_length();
    let mml = op.get_minimum_match_length();
    kani::assert(ml.is_none() || min == max, "C05.repeat-bounds.match-length-only-when-fixed");
    kani::assert(min > usize::MAX / blen || mml == min * blen, "C05.repeat-bounds.minimum-length");
    // static nullability fact (feeds the empty-match rejection and quantifier lowering)
    let zls = op.matches_empty_string();
    kani::assert(
        zls == if min == 0 { crate::operation::MATCHES_ZLS_ANYWHERE } else { crate::operation::MATCHES_ZLS_NEVER },
        "C01.repeat-bounds.static-nullability-iff-min-zero",
    );
    std::mem::forget(op);
    std::mem::forget(m);
    std::mem::forget(p);
}

//@ harness: b_greedyfixed_fullwidth
//@ props: C05 C01
//@ tier: quick
//@ cost: 100
//@ bound: GreedyFixed(Atom[c1,c2],min,max,2) for ALL usize min<=max (max>=1); input <= 2 chars; every position: no overflow/panic, first yield, get_match_length/get_minimum_match_length
//@ encodes: GreedyFixed::matches_iter GreedyFixed::get_match_length GreedyFixed::get_minimum_match_length IntStepIterator::new
std_stubs! { #[kani::unwind(5)] pub(crate) fn b_greedyfixed_fullwidth() { b_bounds_full(0, true) } }

//@ harness: b_greedyfixed_fullwidth1
//@ props: C05 C01
//@ tier: quick
//@ cost: 100
//@ bound: GreedyFixed(Atom[c],min,max,1) for ALL usize min<=max (max>=1); input <= 2 chars; every position
//@ encodes: GreedyFixed::matches_iter GreedyFixed::get_match_length GreedyFixed::get_minimum_match_length
std_stubs! { #[kani::unwind(5)] pub(crate) fn b_greedyfixed_fullwidth1() { b_bounds_full(0, false) } }

//@ harness: b_reluctantfixed_fullwidth
//@ props: C05
//@ tier: quick
//@ cost: 100
//@ bound: ReluctantFixed(Atom[c1,c2],min,max,2) for ALL usize min<=max; input <= 2 chars; every position
//@ encodes: ReluctantFixed::matches_iter ReluctantFixedIterator::next ReluctantFixed::get_match_length ReluctantFixed::get_minimum_match_length
std_stubs! { #[kani::unwind(5)] pub(crate) fn b_reluctantfixed_fullwidth() { b_bounds_full(1, true) } }

//@ harness: b_unambiguous_fullwidth
//@ props: C05
//@ tier: quick
//@ cost: 100
//@ bound: UnambiguousRepeat(Atom[c1,c2],min,max) for ALL usize min<=max; input <= 2 chars; every position
//@ encodes: UnambiguousRepeat::matches_iter UnambiguousRepeat::get_match_length UnambiguousRepeat::get_minimum_match_length
std_stubs! { #[kani::unwind(5)] pub(crate) fn b_unambiguous_fullwidth() { b_bounds_full(2, true) } }

//@ harness: b_repeat_fullwidth
//@ props: C05
//@ tier: quick
//@ cost: 100
//@ bound: reluctant Repeat(Atom[c1,c2],min,max) for ALL usize min<=max; input <= 2 chars; every position: first yield and static length facts
//@ encodes: Repeat::matches_iter ReluctantRepeatIterator::next Repeat::get_match_length Repeat::get_minimum_match_length
std_stubs! { #[kani::unwind(5)] pub(crate) fn b_repeat_fullwidth() { b_bounds_full(3, true) } }

// ---- yield order with a two-character body (len = 2) -----------------------
//@ harness: b_greedyfixed_order_len2
//@ rss: 6
//@ props: C02 C20 C01
//@ tier: quick
//@ cost: 200
//@ bound: GreedyFixed(Atom[c1,c2],min<=2,max in {1,2,3,unbounded},len=2).matches_iter at position 0..=len of every input <= 4 chars over all scalar values: complete yield sequence pos+2k for k from min(run,max) down to min, then None
//@ encodes: GreedyFixed::matches_iter IntStepIterator::next IntStepIterator::new Atom::matches_iter
std_stubs! {
    #[kani::unwind(7)]
    pub(crate) fn b_greedyfixed_order_len2() {
        let c1: char = kani::any();
        let c2: char = kani::any();
        let (min, max) = small_bounds();
        let op = GreedyFixed::new(Operation::from(Atom::new(vec![c1, c2])), min, max, 2);
        let p = bare(Operation::from(Nothing), flags(""));
        let mut m = ReMatcher::new(&p, "");
        let (v, len) = sym_input::<4>();
        m.search = v;
        let pos: usize = kani::any();
        kani::assume(pos <= len);
        let mut run = 0;
        let mut k = 0;
        while k < 2 {
            if run == k && pos + 2 * k + 2 <= len && m.search[pos + 2 * k] == c1 && m.search[pos + 2 * k + 1] == c2 {
                run += 1;
            }
            k += 1;
        }
        let top = umin(run, max);
        kani::cover!(run == 2 && min == 2 && max == 3, "two repetitions available, {2,3}");
        kani::cover!(run < min, "fewer repetitions than the minimum");
        let mut it = op.matches_iter(&m, pos);
        let mut ok = true;
        let mut k = 0;
        while k < 4 {
            let got = it.next();
            let want = if run >= min && min + k <= top { Some(pos + 2 * (top - k)) } else { None };
            if !opt_eq(got, want) {
                ok = false;
            }
            k += 1;
        }
        kani::assert(ok, "C02.greedy-fixed.len2.yield-order-never-below-minimum");
        std::mem::forget(it);
        std::mem::forget(op);
        std::mem::forget(m);
        std::mem::forget(p);
    }
}

// ---- matches_iter probed beyond the end of the input (preconditions do that)
fn b_beyond_end(kind: u8) {
    let c: char = kani::any();
    let min: usize = kani::any();
    kani::assume(min >= 1 && min <= 3);
    let child = Operation::from(Atom::new(vec![c]));
    let op = match kind {
        0 => Operation::from(GreedyFixed::new(child, min, usize::MAX, 1)),
        1 => Operation::from(ReluctantFixed::new(child, min, usize::MAX, 1)),
        2 => Operation::from(UnambiguousRepeat::new(child, min, usize::MAX)),
        3 => Operation::from(Repeat::new(child, min, usize::MAX, false)),
        4 => Operation::from(Repeat::new(child, min, min, true)),
        5 => Operation::from(CharClass::new(static_class(&[0x61, 0x64]))),
        _ => child,
    };
    let p = bare(Operation::from(Nothing), flags(""));
    let mut m = ReMatcher::new(&p, "");
    let (v, len) = sym_input::<2>();
    m.search = v;
    let pos: usize = kani::any();
    kani::assume(pos > len && pos <= len + 3);
    kani::cover!(len == 0 && pos == 2, "probe of the empty input at position 2");
    kani::cover!(len == 2, "probe just beyond a non-empty input");
    let got = op.matches_iter(&m, pos).next();
    kani::assert(got.is_none(), "C05.beyond-end.no-match-and-no-panic");
    std::mem::forget(op);
    std::mem::forget(m);
    std::mem::forget(p);
}

//@ harness: b_beyond_end_repeat_reluctant
//@ props: C05 C08
//@ tier: quick
//@ cost: 100
//@ bound: reluctant Repeat(Atom[c],min 1..=3,unbounded) probed at every position len+1..=len+3 of every input <= 2 chars: no panic, no match (the `bound` expression it guards is shared with the greedy branch, which itself is out of reach: Vec<Box<dyn Iterator>>)
//@ encodes: Repeat::matches_iter ReluctantRepeatIterator::next
std_stubs! { #[kani::unwind(6)] pub(crate) fn b_beyond_end_repeat_reluctant() { b_beyond_end(3) } }

//@ harness: b_beyond_end_fixed
//@ props: C05 C08
//@ tier: quick
//@ cost: 100
//@ bound: GreedyFixed(Atom[c],min 1..=3,unbounded,1) probed at every position len+1..=len+3 of every input <= 2 chars: no panic, no match
//@ encodes: GreedyFixed::matches_iter
std_stubs! { #[kani::unwind(6)] pub(crate) fn b_beyond_end_fixed() { b_beyond_end(0) } }

//@ harness: b_beyond_end_reluctant_fixed
//@ props: C05 C08
//@ tier: thorough
//@ cost: 100
//@ bound: ReluctantFixed(Atom[c],min 1..=3,unbounded,1) probed beyond the end (len+1..=len+3), input <= 2 chars
//@ encodes: ReluctantFixed::matches_iter ReluctantFixedIterator::next
std_stubs! { #[kani::unwind(6)] pub(crate) fn b_beyond_end_reluctant_fixed() { b_beyond_end(1) } }

//@ harness: b_beyond_end_unambiguous
//@ props: C05 C08
//@ tier: thorough
//@ cost: 100
//@ bound: UnambiguousRepeat(Atom[c],min 1..=3,unbounded) probed beyond the end, input <= 2 chars
//@ encodes: UnambiguousRepeat::matches_iter
std_stubs! { #[kani::unwind(6)] pub(crate) fn b_beyond_end_unambiguous() { b_beyond_end(2) } }

//@ harness: b_beyond_end_leaves
//@ props: C05 C08
//@ tier: quick
//@ cost: 60
//@ bound: Atom[c] probed beyond the end (len+1..=len+3), input <= 2 chars: no panic, no match
//@ encodes: Atom::matches_iter
std_stubs! { #[kani::unwind(8)] pub(crate) fn b_beyond_end_leaves() { b_beyond_end(6) } }

//@ harness: b_beyond_end_class
//@ props: C05 C08
//@ tier: quick
//@ cost: 60
//@ bound: CharClass([a-c]) probed beyond the end (len+1..=len+3), input <= 2 chars: no panic, no match
//@ encodes: CharClass::matches_iter
std_stubs! { #[kani::unwind(8)] pub(crate) fn b_beyond_end_class() { b_beyond_end(5) } }
