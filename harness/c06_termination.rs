// ===== Family D: termination / finiteness of iterators (C06) ===============

struct SamePos {
    pos: usize,
    left: usize,
}
impl Iterator for SamePos {
    type Item = usize;
    fn next(&mut self) -> Option<usize> {
        if self.left == 0 {
            None
        } else {
            self.left -= 1;
            Some(self.pos)
        }
    }
}

//@ harness: d_force_progress
//@ props: C06
//@ tier: quick
//@ cost: 30
//@ bound: ForceProgressIterator over a base iterator that yields one position k times (k any usize): at most 1+4 items, then None on each of 3 further calls
//@ encodes: ForceProgressIterator::next ForceProgressIterator::new
std_stubs! {
    #[kani::unwind(12)]
    pub(crate) fn d_force_progress() {
        let pos: usize = kani::any();
        let k: usize = kani::any();
        let mut it = ForceProgressIterator::new(Box::new(SamePos { pos, left: k }));
        kani::cover!(k > 8, "base iterator would repeat more than 8 times");
        kani::cover!(k < 3, "base iterator ends by itself");
        let mut n = 0;
        let mut i = 0;
        let mut ok = true;
        while i < 8 {
            match it.next() {
                Some(p) => {
                    if p != pos || i >= 5 {
                        ok = false;
                    }
                    n += 1;
                }
                None => {}
            }
            i += 1;
        }
        kani::assert(ok, "C06.force-progress.at-most-5-items-then-none");
        kani::assert(n == umin(k, 5), "C06.force-progress.count");
        std::mem::forget(it);
    }
}

/// A reluctant repeat whose body matches only zero-width (an anchor) must be a
/// finite iterator.  child 0: Eol, 1: Bol, 2: Nothing.
fn d_zero_width_body(variable: bool, child: u8) {
    let min: usize = kani::any();
    kani::assume(min <= 2);
    let ch = match child {
        0 => Operation::from(Eol),
        1 => Operation::from(Bol),
        _ => Operation::from(Nothing),
    };
    let op = if variable {
        Operation::from(Repeat::new(ch, min, usize::MAX, false))
    } else {
        Operation::from(ReluctantFixed::new(ch, min, usize::MAX, 0))
    };
    let p = bare(Operation::from(Nothing), flags(""));
    let mut m = ReMatcher::new(&p, "");
    let (v, len) = sym_input::<1>();
    m.search = v;
    let pos: usize = kani::any();
    kani::assume(pos <= len);
    kani::cover!(pos == len, "at the end of the input");
    kani::cover!(pos == 0, "at the start of the input");
    let mut it = op.matches_iter(&m, pos);
    let mut i = 0;
    let mut last_some = false;
    let mut ok = true;
    while i < 10 {
        match it.next() {
            Some(q) => {
                if q != pos {
                    ok = false;
                }
                last_some = true;
            }
            None => last_some = false,
        }
        i += 1;
    }
    kani::assert(ok, "C06.zero-width-body.yields-only-start-position");
    kani::assert(!last_some, "C06.zero-width-body.finite (None within 10 calls)");
    std::mem::forget(it);
    std::mem::forget(op);
    std::mem::forget(m);
    std::mem::forget(p);
}

//@ harness: d_reluctant_repeat_eol_body
//@ rss: 6
//@ props: C06
//@ tier: quick
//@ cost: 60
//@ bound: reluctant variable Repeat(Eol, min<=2, unbounded).matches_iter at every position of every input <= 1 char: only the start position is yielded and the iterator returns None within 10 calls
//@ encodes: Repeat::matches_iter ReluctantRepeatIterator::next ForceProgressIterator::next Eol::matches_iter
std_stubs! { #[kani::unwind(14)] pub(crate) fn d_reluctant_repeat_eol_body() { d_zero_width_body(true, 0) } }

//@ harness: d_reluctant_repeat_bol_body
//@ rss: 6
//@ props: C06
//@ tier: quick
//@ cost: 60
//@ bound: reluctant variable Repeat(Bol, min<=2, unbounded).matches_iter, input <= 1 char, every position: finite within 10 calls
//@ encodes: Repeat::matches_iter ReluctantRepeatIterator::next ForceProgressIterator::next Bol::matches_iter
std_stubs! { #[kani::unwind(14)] pub(crate) fn d_reluctant_repeat_bol_body() { d_zero_width_body(true, 1) } }

//@ harness: d_reluctant_fixed_zero_len_body
//@ props: C06
//@ tier: quick
//@ cost: 60
//@ bound: ReluctantFixed(Bol, min<=2, unbounded, len=0).matches_iter, input <= 1 char, every position: finite within 10 calls
//@ encodes: ReluctantFixed::matches_iter ReluctantFixedIterator::next Bol::matches_iter
std_stubs! { #[kani::unwind(14)] pub(crate) fn d_reluctant_fixed_zero_len_body() { d_zero_width_body(false, 1) } }

//@ harness: d_reluctant_fixed_eol_body
//@ props: C06
//@ tier: thorough
//@ cost: 60
//@ bound: ReluctantFixed(Eol, min<=2, unbounded, len=0).matches_iter, input <= 1 char, every position: finite within 10 calls
//@ encodes: ReluctantFixed::matches_iter ReluctantFixedIterator::next Eol::matches_iter
std_stubs! { #[kani::unwind(14)] pub(crate) fn d_reluctant_fixed_eol_body() { d_zero_width_body(false, 0) } }
