// ===== Family C: capture / back-reference state (C03, C18-mechanism, C19) ===

fn c_capture<const N: usize>() {
    let c: char = kani::any();
    let mut p = bare(
        Operation::from(Capture::new(1, Operation::from(Atom::new(vec![c])))),
        flags(""),
    );
    p.max_parens = Some(2);
    p.optimization_flags = OPT_HASBACKREFS;
    let mut m = ReMatcher::new(&p, "");
    let (v, len) = sym_input::<N>();
    m.search = v;
    let start: usize = kani::any();
    kani::assume(start <= len);
    let want = leftmost::<N, _>(start, len, |j| if j < len && m.search[j] == c { Some(j + 1) } else { None });
    kani::cover!(want.is_some(), "group participates");
    kani::cover!(want.is_none() && len == N, "no match");
    let r = compare_search(&mut m, start, want);
    kani::assert(r.found_ok && r.start_ok && r.end_ok, "C03.capture.match-span");
    match want {
        Some((s, e)) => {
            kani::assert(m.paren_count() == 2, "C03.capture.paren-count");
            kani::assert(
                opt_eq(m.get_paren_start(1), Some(s)) && opt_eq(m.get_paren_end(1), Some(e)),
                "C03.capture.group-span-equals-submatch",
            );
            kani::assert(
                opt_eq(m.start_backref(1), Some(s)) && opt_eq(m.end_backref(1), Some(e)),
                "C19.capture.backref-arrays-record-span",
            );
            let g = m.get_paren(1);
            kani::assert(matches!(g, Some(t) if t.len() == 1 && t[0] == c), "C03.capture.group-text");
        }
        None => {
            kani::assert(m.paren_count() == 0, "C03.capture.no-match-no-groups");
            kani::assert(m.get_paren(1).is_none(), "C03.capture.absent-group-absent");
        }
    }
    std::mem::forget(m);
    std::mem::forget(p);
}

//@ harness: c_capture_n2
//@ props: C03 C19
//@ tier: quick
//@ cost: 150
//@ bound: program Capture(1, Atom[c]) with OPT_HASBACKREFS, max_parens=2; c any scalar value; input <= 2 chars over all scalar values; start 0..=len
//@ encodes: ReMatcher::matches ReMatcher::match_at Capture::matches_iter CaptureGroupIterator::next CaptureState::set_paren_start CaptureState::set_paren_end ReMatcher::get_paren
std_stubs! { #[kani::unwind(6)] pub(crate) fn c_capture_n2() { c_capture::<2>() } }

//@ harness: c_capture_n3
//@ props: C03 C19
//@ tier: thorough
//@ cost: 600
//@ bound: program Capture(1, Atom[c]) with OPT_HASBACKREFS; input <= 3 chars over all scalar values; start 0..=len
//@ encodes: ReMatcher::matches ReMatcher::match_at Capture::matches_iter CaptureGroupIterator::next
std_stubs! { #[kani::unwind(7)] pub(crate) fn c_capture_n3() { c_capture::<3>() } }

/// One search from an ARBITRARY prior capture / back-reference state must leave
/// exactly the state a fresh matcher would have (inductive step for "every
/// search starts from a clean slate": re_matcher.rs capture reset + per-attempt
/// back-reference arrays).  kind 0: Atom[c]; kind 1: Bol with OPT_HASBOL, flag m.
fn c_reset<const N: usize>(kind: u8) {
    let c: char = kani::any();
    let mut p = if kind == 0 {
        bare(Operation::from(Atom::new(vec![c])), flags(""))
    } else {
        let mut p = bare(Operation::from(Bol), flags("m"));
        p.optimization_flags = OPT_HASBOL;
        p
    };
    p.max_parens = Some(3);
    p.optimization_flags |= OPT_HASBACKREFS;
    let mut m = ReMatcher::new(&p, "");
    let (v, len) = sym_input::<N>();
    m.search = v;
    // arbitrary prior state, as left behind by an earlier search on this matcher
    {
        let st = m.verif_state();
        let mut st = st.borrow_mut();
        let s1: Option<usize> = kani::any();
        let e1: Option<usize> = kani::any();
        let s2: Option<usize> = kani::any();
        let e2: Option<usize> = kani::any();
        st.capture_state.startn = vec![Some(0), s1, s2];
        st.capture_state.endn = vec![Some(0), e1, e2];
        st.capture_state.paren_count = 3;
        let b1: Option<usize> = kani::any();
        let b2: Option<usize> = kani::any();
        st.start_backref = vec![None, b1, b2];
        st.end_backref = vec![None, b2, b1];
        kani::cover!(s1.is_some() && e1.is_some() && b1.is_some(), "stale group 1 present before the search");
    }
    let start: usize = kani::any();
    kani::assume(start <= len);
    let found = m.matches(start);
    kani::cover!(found, "search succeeds");
    kani::cover!(!found, "search fails");
    kani::assert(m.get_paren(1).is_none() && m.get_paren(2).is_none(), "C03.reset.stale-group-text-gone");
    kani::assert(m.get_paren_start(1).is_none() && m.get_paren_end(1).is_none(), "C03.reset.group1-unset");
    kani::assert(m.get_paren_start(2).is_none() && m.get_paren_end(2).is_none(), "C03.reset.group2-unset");
    kani::assert(m.paren_count() == if found { 1 } else { 0 }, "C03.reset.paren-count");
    if found || (kind == 0 && start < len) || kind == 1 {
        // at least one match attempt ran: the back-reference arrays are fresh
        kani::assert(m.start_backref(1).is_none() && m.end_backref(1).is_none(), "C19.reset.backref1-unset");
        kani::assert(m.start_backref(2).is_none() && m.end_backref(2).is_none(), "C19.reset.backref2-unset");
    }
    std::mem::forget(m);
    std::mem::forget(p);
}

//@ harness: c_reset_atom_n2
//@ props: C03 C19
//@ tier: quick
//@ cost: 150
//@ bound: program Atom[c], max_parens=3, OPT_HASBACKREFS; ARBITRARY prior capture and back-reference arrays (3 entries each, every Option<usize> value); input <= 2 chars, all scalar values; start 0..=len
//@ encodes: ReMatcher::matches(capture-state-reset) ReMatcher::match_at(backref-array-allocation) ReMatcher::get_paren
std_stubs! { #[kani::unwind(6)] pub(crate) fn c_reset_atom_n2() { c_reset::<2>(0) } }

//@ harness: c_reset_bol_n2
//@ props: C03 C19 C08
//@ tier: quick
//@ cost: 150
//@ bound: program Bol with OPT_HASBOL, flag m (start-anchor fast path), max_parens=3, OPT_HASBACKREFS; ARBITRARY prior capture and back-reference arrays; input <= 2 chars, all scalar values; start 0..=len
//@ encodes: ReMatcher::matches(capture-state-reset,OPT_HASBOL-path) ReMatcher::match_at(backref-array-allocation) Bol::matches_iter
std_stubs! { #[kani::unwind(6)] pub(crate) fn c_reset_bol_n2() { c_reset::<2>(1) } }

// ---- BackReference::matches_iter -----------------------------------------
fn c_backref<const N: usize>(ci: bool) {
    let mut p = bare(Operation::from(Nothing), if ci { flags("i") } else { flags("") });
    p.max_parens = Some(2);
    p.optimization_flags = OPT_HASBACKREFS;
    let mut m = ReMatcher::new(&p, "");
    let (v, len) = sym_input::<N>();
    m.search = v;
    let s: Option<usize> = kani::any();
    let e: Option<usize> = kani::any();
    // representation invariant: a recorded span lies inside the input
    if let (Some(s), Some(e)) = (s, e) {
        kani::assume(s <= e && e <= len);
    }
    if let Some(s) = s {
        kani::assume(s <= len);
    }
    if let Some(e) = e {
        kani::assume(e <= len);
    }
    {
        let st = m.verif_state();
        let mut st = st.borrow_mut();
        st.start_backref = vec![None, s];
        st.end_backref = vec![None, e];
    }
    let pos: usize = kani::any();
    kani::assume(pos <= len);
    let want = match (s, e) {
        (Some(s), Some(e)) => {
            let l = e - s;
            let mut ok = pos + l <= len;
            let mut k = 0;
            while k < N {
                if k < l && ok {
                    let a = m.search[pos + k];
                    let b = m.search[s + k];
                    if !(if ci { model_eq_ci(a, b) } else { a == b }) {
                        ok = false;
                    }
                }
                k += 1;
            }
            if ok { Some(pos + l) } else { None }
        }
        // the group has not participated: matches the empty string
        _ => Some(pos),
    };
    kani::cover!(matches!((s, e), (Some(s), Some(e)) if e - s == 2) && want.is_some(), "two-char copy matches");
    kani::cover!(matches!((s, e), (Some(_), Some(_))) && want.is_none(), "copy does not match");
    kani::cover!(s.is_none() || e.is_none(), "group has not participated");
    kani::cover!(matches!((s, e), (Some(s), Some(e)) if e == s), "empty capture");
    let got = BackReference::new(1).matches_iter(&m, pos).next();
    kani::assert(opt_eq(got, want), "C19.backref.matches-copy-of-capture");
    std::mem::forget(m);
    std::mem::forget(p);
}

//@ harness: c_backref_n3
//@ props: C19 C05
//@ tier: quick
//@ cost: 150
//@ bound: BackReference(1).matches_iter; recorded span any (s,e) with s<=e<=len or unset (either side None); input <= 3 chars over all scalar values; every position 0..=len; no flag i
//@ encodes: BackReference::matches_iter ReMatcher::start_backref ReMatcher::end_backref
std_stubs! { #[kani::unwind(6)] pub(crate) fn c_backref_n3() { c_backref::<3>(false) } }

//@ harness: c_backref_i_n3
//@ props: C19 C11
//@ tier: quick
//@ cost: 200
//@ bound: BackReference(1).matches_iter with flag i (case mapping = arithmetic model stub); recorded span any (s,e) or unset; input <= 3 chars over all scalar values; every position
//@ encodes: BackReference::matches_iter ReMatcher::equal_case_blind
std_stubs! { #[kani::unwind(6)] pub(crate) fn c_backref_i_n3() { c_backref::<3>(true) } }

//@ harness: c_backref_n4
//@ props: C19 C05
//@ tier: thorough
//@ cost: 600
//@ bound: BackReference(1).matches_iter; any recorded span or unset; input <= 4 chars over all scalar values; every position; no flag i
//@ encodes: BackReference::matches_iter
std_stubs! { #[kani::unwind(7)] pub(crate) fn c_backref_n4() { c_backref::<4>(false) } }
