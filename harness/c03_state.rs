// ===== Family C: capture / back-reference state (C03, C18-mechanism, C19) ===

fn c_capture<const N: usize>() {
    let c: char = kani::any();
    let mut p = bare(
        Operation::from(Capture::new(1, Operation::from(Atom::new(vec![c])))),
        flags(""),
    );
    p.max_parens = Some(2);
    p.optimization_flags = OPT_HASBACKREFS;
    let mut m = ReMatcher::new(&p, "");
    let (v, len) = sym_input::<N>();
    m.search = v;
    let start: usize = kani::any();
    kani::assume(start <= len);
    let want = leftmost::<N, _>(start, len, |j| if j < len && m.search[j] == c { Some(j + 1) } else { None });
    kani::cover!(want.is_some(), "group participates");
    kani::cover!(want.is_none() && len == N, "no match");
    let r = compare_search(&mut m, start, want);
    kani::assert(r.found_ok && r.start_ok && r.end_ok, "C03.capture.match-span");
    match want {
        Some((s, e)) => {
            kani::assert(m.paren_count() == 2, "C03.capture.paren-count");
            kani::assert(
                opt_eq(m.get_paren_start(1), Some(s)) && opt_eq(m.get_paren_end(1), Some(e)),
                "C03.capture.group-span-equals-submatch",
            );
            kani::assert(
                opt_eq(m.start_backref(1), Some(s)) && opt_eq(m.end_backref(1), Some(e)),
                "C19.capture.backref-arrays-record-span",
            );
            let g = m.get_paren(1);
            kani::assert(matches!(g, Some(t) if t.len() == 1 && t[0] == c), "C03.capture.group-text");
        }
        None => {
            kani::assert(m.paren_count() == 0, "C03.capture.no-match-no-groups");
            kani::assert(m.get_paren(1).is_none(), "C03.capture.absent-group-absent");
        }
    }
    std::mem::forget(m);
    std::mem::forget(p);
}

//@ harness: c_capture_n2
//@ props: C03 C19
//@ tier: quick
//@ cost: 150
//@ bound: program Capture(1, Atom[c]) with OPT_HASBACKREFS, max_parens=2; c any scalar value; input <= 2 chars over all scalar values; start 0..=len
//@ encodes: ReMatcher::matches ReMatcher::match_at Capture::matches_iter CaptureGroupIterator::next CaptureState::set_paren_start CaptureState::set_paren_end ReMatcher::get_paren
std_stubs! { #[kani::unwind(6)] pub(crate) fn c_capture_n2() { c_capture::<2>() } }

//@ harness: c_capture_n3
//@ props: C03 C19
//@ tier: thorough
//@ cost: 600
//@ bound: program Capture(1, Atom[c]) with OPT_HASBACKREFS; input <= 3 chars over all scalar values; start 0..=len
//@ encodes: ReMatcher::matches ReMatcher::match_at Capture::matches_iter CaptureGroupIterator::next
std_stubs! { #[kani::unwind(7)] pub(crate) fn c_capture_n3() { c_capture::<3>() } }

/// One search from an ARBITRARY prior capture / back-reference state must leave
/// exactly the state a fresh matcher would have (inductive step for "every
/// search starts from a clean slate": re_matcher.rs capture reset + per-attempt
/// back-reference arrays).  kind 0: Atom[c]; kind 1: Bol with OPT_HASBOL, flag m.
fn c_reset<const N: usize>(kind: u8) {
    let c: char = kani::any();
    let mut p = if kind == 0 {
        bare(Operation::from(Atom::new(vec![c])), flags(""))
    } else {
        let mut p = bare(Operation::from(Bol), flags("m"));
        p.optimization_flags = OPT_HASBOL;
        p
    };
    p.max_parens = Some(3);
    p.optimization_flags |= OPT_HASBACKREFS;
    let mut m = ReMatcher::new(&p, "");
    let (v, len) = sym_input::<N>();
    m.search = v;
    // arbitrary prior state, as left behind by an earlier search on this matcher
    {
        let st = m.verif_state();
        let mut st = st.borrow_mut();
        let s1: Option<usize> = kani::any();
        let e1: Option<usize> = kani::any();
        let s2: Option<usize> = kani::any();
        let e2: Option<usize> = kani::any();
        st.capture_state.startn = vec![Some(0), s1, s2];
        st.capture_state.endn = vec![Some(0), e1, e2];
        st.capture_state.paren_count = 3;
        let b1: Option<usize> = kani::any();
        let b2: Option<usize> = kani::any();
        st.start_backref = vec![None, b1, b2];
        st.end_backref = vec![None, b2, b1];
        kani::cover!(s1.is_some() && e1.is_some() && b1.is_some(), "stale group 1 present before the search");
    }
    let start: usize = kani::any();
    kani::assume(start <= len);
    let found = m.matches(start);
    kani::cover!(found, "search succeeds");
    kani::cover!(!found, "search fails");
    kani::assert(m.get_paren(1).is_none() && m.get_paren(2).is_none(), "C03.reset.stale-group-text-gone");
    kani::assert(m.get_paren_start(1).is_none() && m.get_paren_end(1).is_none(), "C03.reset.group1-unset");
    kani::assert(m.get_paren_start(2).is_none() && m.get_paren_end(2).is_none(), "C03.reset.group2-unset");
    kani::assert(m.paren_count() == if found { 1 } else { 0 }, "C03.reset.paren-count");
    if found || (kind == 0 && start < len) || kind == 1 {
        // at least one match attempt ran: the back-reference arrays are fresh
        kani::assert(m.start_backref(1).is_none() && m.end_backref(1).is_none(), "C19.reset.backref1-unset");
        kani::assert(m.start_backref(2).is_none() && m.end_backref(2).is_none(), "C19.reset.backref2-unset");
    }
    std::mem::forget(m);
    std::mem::forget(p);
}

//@ harness: c_reset_atom_n2
//@ props: C03 C19
//@ tier: quick
//@ cost: 150
//@ bound: program Atom[c], max_parens=3, OPT_HASBACKREFS; ARBITRARY prior capture and back-reference arrays (3 entries each, every Option<usize> value); input <= 2 chars, all scalar values; start 0..=len
//@ encodes: ReMatcher::matches(capture-state-reset) ReMatcher::match_at(backref-array-allocation) ReMatcher::get_paren
std_stubs! { #[kani::unwind(6)] pub(crate) fn c_reset_atom_n2() { c_reset::<2>(0) } }

//@ harness: c_reset_bol_n2
//@ props: C03 C19 C08
//@ tier: quick
//@ cost: 150
//@ bound: program Bol with OPT_HASBOL, flag m (start-anchor fast path), max_parens=3, OPT_HASBACKREFS; ARBITRARY prior capture and back-reference arrays; input <= 2 chars, all scalar values; start 0..=len
//@ encodes: ReMatcher::matches(capture-state-reset,OPT_HASBOL-path) ReMatcher::match_at(backref-array-allocation) Bol::matches_iter
std_stubs! { #[kani::unwind(6)] pub(crate) fn c_reset_bol_n2() { c_reset::<2>(1) } }

// ---- BackReference::matches_iter -----------------------------------------
fn c_backref<const N: usize>(ci: bool) {
    let mut p = bare(Operation::from(Nothing), if ci { flags("i") } else { flags("") });
    p.max_parens = Some(2);
    p.optimization_flags = OPT_HASBACKREFS;
    let mut m = ReMatcher::new(&p, "");
    let (v, len) = sym_input::<N>();
    m.search = v;
    let s: Option<usize> = kani::any();
    let e: Option<usize> = kani::any();
    // representation invariant: a recorded span lies inside the input
    if let (Some(s), Some(e)) = (s, e) {
        kani::assume(s <= e && e <= len);
    }
    if let Some(s) = s {
        kani::assume(s <= len);
    }
    if let Some(e) = e {
        kani::assume(e <= len);
    }
    {
        let st = m.verif_state();
        let mut st = st.borrow_mut();
        st.start_backref = vec![None, s];
        st.end_backref = vec![None, e];
    }
    let pos: usize = kani::any();
    kani::assume(pos <= len);
    let want = match (s, e) {
        (Some(s), Some(e)) => {
            let l = e - s;
            let mut ok = pos + l <= len;
            let mut k = 0;
            while k < N {
                if k < l && ok {
                    let a = m.search[pos + k];
                    let b = m.search[s + k];
                    if !(if ci { model_eq_ci(a, b) } else { a == b }) {
                        ok = false;
                    }
                }
                k += 1;
            }
            if ok { Some(pos + l) } else { None }
        }
        // the group has not participated: matches the empty string
        _ => Some(pos),
    };
    kani::cover!(matches!((s, e), (Some(s), Some(e)) if e - s == 2) && want.is_some(), "two-char copy matches");
    kani::cover!(matches!((s, e), (Some(_), Some(_))) && want.is_none(), "copy does not match");
    kani::cover!(s.is_none() || e.is_none(), "group has not participated");
    kani::cover!(matches!((s, e), (Some(s), Some(e)) if e == s), "empty capture");
    let got = BackReference::new(1).matches_iter(&m, pos).next();
    kani::assert(opt_eq(got, want), "C19.backref.matches-copy-of-capture");
    std::mem::forget(m);
    std::mem::forget(p);
}

//@ harness: c_backref_n3
//@ props: C19 C05
//@ tier: quick
//@ cost: 150
//@ bound: BackReference(1).matches_iter; recorded span any (s,e) with s<=e<=len or unset (either side None); input <= 3 chars over all scalar values; every position 0..=len; no flag i
//@ encodes: BackReference::matches_iter ReMatcher::start_backref ReMatcher::end_backref
std_stubs! { #[kani::unwind(6)] pub(crate) fn c_backref_n3() { c_backref::<3>(false) } }

//@ harness: c_backref_i_n3
//@ props: C19 C11
//@ tier: quick
//@ cost: 200
//@ bound: BackReference(1).matches_iter with flag i (case mapping = arithmetic model stub); recorded span any (s,e) or unset; input <= 3 chars over all scalar values; every position
//@ encodes: BackReference::matches_iter ReMatcher::equal_case_blind
std_stubs! { #[kani::unwind(6)] pub(crate) fn c_backref_i_n3() { c_backref::<3>(true) } }

//@ harness: c_backref_n4
//@ props: C19 C05
//@ tier: thorough
//@ cost: 600
//@ bound: BackReference(1).matches_iter; any recorded span or unset; input <= 4 chars over all scalar values; every position; no flag i
//@ encodes: BackReference::matches_iter
std_stubs! { #[kani::unwind(7)] pub(crate) fn c_backref_n4() { c_backref::<4>(false) } }

// ---- capture-state primitives (C03, C19) -----------------------------------
fn opt_in(len: usize) -> Option<usize> {
    let o: Option<usize> = kani::any();
    if let Some(x) = o {
        kani::assume(x <= len);
    }
    o
}

//@ harness: c_clear_beyond
//@ props: C03 C19
//@ tier: quick
//@ cost: 60
//@ bound: ReMatcher::clear_captured_groups_beyond(pos) from ARBITRARY capture arrays (3 groups) and back-reference arrays (4 entries - longer than the capture arrays, as for a program with more than 2 groups), every pos: a group / back-reference whose start is at or after pos is emptied (end := start), every other entry is left untouched
//@ encodes: ReMatcher::clear_captured_groups_beyond
std_stubs! {
    #[kani::unwind(6)]
    pub(crate) fn c_clear_beyond() {
        let mut p = bare(Operation::from(Nothing), flags(""));
        p.max_parens = Some(4);
        let m = ReMatcher::new(&p, "");
        let s = [opt_in(8), opt_in(8), opt_in(8)];
        let e = [opt_in(8), opt_in(8), opt_in(8)];
        // one back-reference slot per group of the program (4 here), whereas the
        // capture arrays have only the 3 slots of a fresh matcher
        let bs = [opt_in(8), opt_in(8), opt_in(8), opt_in(8)];
        let be = [opt_in(8), opt_in(8), opt_in(8), opt_in(8)];
        {
            let st = m.verif_state();
            let mut st = st.borrow_mut();
            st.capture_state.startn = vec![s[0], s[1], s[2]];
            st.capture_state.endn = vec![e[0], e[1], e[2]];
            st.capture_state.paren_count = 3;
            st.start_backref = vec![bs[0], bs[1], bs[2], bs[3]];
            st.end_backref = vec![be[0], be[1], be[2], be[3]];
        }
        let pos: usize = kani::any();
        kani::assume(pos <= 8);
        kani::cover!(matches!(s[1], Some(x) if x == pos), "a group starting exactly at the backtracked position");
        kani::cover!(matches!(s[2], Some(x) if x < pos) && e[2].is_some(), "a group starting before it");
        kani::cover!(s[1].is_none(), "an unset group");
        kani::cover!(matches!(bs[3], Some(x) if x >= pos) && be[3].is_some(), "a back-reference slot beyond the capture arrays is emptied");
        m.clear_captured_groups_beyond(pos);
        let mut ok = true;
        let mut i = 0;
        while i < 3 {
            let cleared = matches!(s[i], Some(x) if x >= pos);
            let want_e = if cleared { s[i] } else { e[i] };
            if !opt_eq(m.get_paren_start(i), s[i]) || !opt_eq(m.get_paren_end(i), want_e) {
                ok = false;
            }
            i += 1;
        }
        let mut i = 0;
        while i < 4 {
            let bcleared = matches!(bs[i], Some(x) if x >= pos);
            let want_be = if bcleared { bs[i] } else { be[i] };
            if !opt_eq(m.start_backref(i), bs[i]) || !opt_eq(m.end_backref(i), want_be) {
                ok = false;
            }
            i += 1;
        }
        kani::assert(ok, "C03.clear-beyond.empties-exactly-groups-starting-at-or-after-pos");
        std::mem::forget(m);
        std::mem::forget(p);
    }
}

fn c_set_paren(g: usize) {
    let p = bare(Operation::from(Nothing), flags(""));
    let mut m = ReMatcher::new(&p, "");
    let (v, len) = sym_input::<2>();
    m.search = v;
    let a: usize = kani::any();
    let b: usize = kani::any();
    kani::assume(a <= b && b <= len);
    kani::cover!(a < b, "non-empty span");
    kani::cover!(a == b, "empty span");
    m.set_paren_count(g + 1);
    m.set_paren_start(0, 0);
    m.set_paren_end(0, len);
    m.set_paren_start(g, a);
    m.set_paren_end(g, b);
    kani::assert(opt_eq(m.get_paren_start(g), Some(a)) && opt_eq(m.get_paren_end(g), Some(b)), "C03.set-paren.slot-holds-position");
    kani::assert(g == 0 || (opt_eq(m.get_paren_start(0), Some(0)) && opt_eq(m.get_paren_end(0), Some(len))), "C03.set-paren.other-slots-untouched");
    let t = m.get_paren(g);
    kani::assert(matches!(t, Some(x) if x.len() == b - a), "C03.get-paren.returns-the-span");
    kani::assert(m.get_paren(g + 1).is_none(), "C03.get-paren.group-beyond-count-is-absent");
    kani::assert(m.get_paren_start(g + 1).is_none() || g + 1 < 3, "C03.get-paren-start.unset-slot-is-none");
    std::mem::forget(m);
    std::mem::forget(p);
}

//@ harness: c_set_paren_g3
//@ props: C03 C05
//@ tier: quick
//@ cost: 60
//@ bound: CaptureState::set_paren_start / set_paren_end for group 3 (the first slot beyond the three a fresh matcher allocates), every span a<=b<=len of every input <= 2 chars: no index error, slot holds the span, group 0 untouched, get_paren reads it back, group 4 absent
//@ encodes: CaptureState::set_paren_start CaptureState::set_paren_end ReMatcher::get_paren ReMatcher::get_paren_start ReMatcher::get_paren_end
std_stubs! { #[kani::unwind(8)] pub(crate) fn c_set_paren_g3() { c_set_paren(3) } }

//@ harness: c_set_paren_g12
//@ props: C03 C05
//@ tier: quick
//@ cost: 60
//@ bound: the same for group 12 (more than 9 groups; the arrays double three times)
//@ encodes: CaptureState::set_paren_start CaptureState::set_paren_end ReMatcher::get_paren
std_stubs! { #[kani::unwind(16)] pub(crate) fn c_set_paren_g12() { c_set_paren(12) } }

//@ harness: c_capture_two_activations
//@ props: C19 C03
//@ tier: quick
//@ cost: 150
//@ bound: two activations of one Capture(1, Atom[c]) at positions p1 < p2 of every input <= 3 chars (as happens when a group sits in a repeat and the engine backtracks into the earlier activation): whenever an activation's iterator yields, group 1's span AND both back-reference slots describe THAT activation (start = its own position, end = the yield)
//@ encodes: Capture::matches_iter CaptureGroupIterator::next ReMatcher::set_start_backref ReMatcher::set_end_backref
std_stubs! {
    #[kani::unwind(6)]
    pub(crate) fn c_capture_two_activations() {
        let c: char = kani::any();
        let cap = Capture::new(1, Operation::from(Atom::new(vec![c])));
        let mut p = bare(Operation::from(Nothing), flags(""));
        p.max_parens = Some(2);
        p.optimization_flags = OPT_HASBACKREFS;
        let mut m = ReMatcher::new(&p, "");
        let (v, len) = sym_input::<3>();
        m.search = v;
        {
            let st = m.verif_state();
            let mut st = st.borrow_mut();
            st.start_backref = vec![None, None];
            st.end_backref = vec![None, None];
        }
        let p1: usize = kani::any();
        let p2: usize = kani::any();
        kani::assume(p1 < p2 && p2 <= len);
        kani::cover!(m.search[p1] == c && p2 < len && m.search[p2] == c, "both activations can match");
        kani::cover!(m.search[p1] == c && !(p2 < len && m.search[p2] == c), "only the earlier activation matches");
        let mut it1 = cap.matches_iter(&m, p1);
        let mut it2 = cap.matches_iter(&m, p2);
        let y2 = it2.next();
        let y1 = it1.next();
        if let Some(e1) = y1 {
            kani::assert(e1 == p1 + 1, "C19.capture.yield");
            kani::assert(opt_eq(m.get_paren_start(1), Some(p1)) && opt_eq(m.get_paren_end(1), Some(e1)), "C03.capture.span-describes-the-yielding-activation");
            kani::assert(opt_eq(m.start_backref(1), Some(p1)) && opt_eq(m.end_backref(1), Some(e1)), "C19.capture.backref-describes-the-yielding-activation");
        }
        kani::assert(y1.is_some() == (m.search[p1] == c), "C03.capture.child-result-passed-through");
        kani::assert(y2.is_some() == (p2 < len && m.search[p2] == c), "C03.capture.child-result-passed-through-2");
        std::mem::forget(it1);
        std::mem::forget(it2);
        std::mem::forget(cap);
        std::mem::forget(m);
        std::mem::forget(p);
    }
}
