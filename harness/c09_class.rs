// ===== Family G: character class expressions (C09, C11) as verbatim slices ====
// Code under test (pasted by lib/slices.py into module slice_cls):
//   ReCompiler::parse_character_class, ReCompiler::escape, ReCompiler::there_follows
//   and CharacterClassBuilder with its union / complement / difference / build.
// Sets are represented by the membership of ONE symbolic probe character, so
// "the class denotes exactly this set" becomes "for every probe x, x is a
// member iff ...", decided for all x at once.

/// Parse `text` (which must be one complete class expression) and return the
/// probe's membership, or None if the parser rejects it or leaves input over.
fn cls_member(text: &[char], ci: bool) -> Option<bool> {
    cls_member_d(text, ci, 0, false)
}

/// `depth` = how many levels of class subtraction the parse may nest;
/// `esc` = whether the text may contain escapes (else backslash-free texts only).
fn cls_member_d(text: &[char], ci: bool, depth: u8, esc: bool) -> Option<bool> {
    let mut v = slice_cls::View {
        pattern: text,
        len: text.len(),
        idx: 0,
        capturing_open_paren_count: 1,
        captures: slice_cls::Caps { closed: [false; 16] },
        has_back_references: false,
        re_flags: slice_cls::Flags { lang: slice_cls::Language::XPath, ci },
        nesting_exhausted: false,
        escape_reached: false,
    };
    let r = match (esc, depth) {
        (false, 0) => v.pcc_ne0(),
        (false, 1) => v.pcc_ne1(),
        (false, _) => v.pcc_ne2(),
        (true, 0) => v.pcc_e0(),
        (true, 1) => v.pcc_e1(),
        (true, _) => v.pcc_e2(),
    };
    // a text that needs more nesting than this harness provides, or an escape in a
    // harness for backslash-free texts, is outside the harness' bound
    kani::assume(!v.nesting_exhausted && !v.escape_reached);
    match r {
        Ok(b) => {
            if v.idx == text.len() {
                let slice_cls::CharacterClass(built) = b.build();
                Some(built.has)
            } else {
                None
            }
        }
        Err(_) => None,
    }
}

fn set_probe() -> (char, [bool; 6]) {
    let x: char = kani::any();
    let kh: [bool; 6] = [kani::any(), kani::any(), kani::any(), kani::any(), kani::any(), kani::any()];
    unsafe {
        slice_cls::PROBE = x;
        slice_cls::KIND_HAS = kh;
    }
    (x, kh)
}

fn plain(c: char) -> bool {
    !(c == '[' || c == ']' || c == '\\' || c == '-' || c == '^')
}

// ---- base cases: single character, range, pair, class escape -----------------
fn g_base(ci: bool) {
    let (x, kh) = set_probe();
    let a: char = kani::any();
    let b: char = kani::any();
    kani::assume(plain(a) && plain(b));
    if ci {
        // the case-closure loop of the parser walks the whole range
        kani::assume((b as u32) <= (a as u32) + 2 || b < a);
    }
    let eq = |p: char, q: char| if ci { model_eq_ci(p, q) } else { p == q };
    // [a]
    let m1 = cls_member(&['[', a, ']'], ci);
    kani::assert(matches!(m1, Some(h) if h == eq(x, a)), "C09.class.single-character-is-that-character (case-blind under i)");
    // [ab]
    let m2 = cls_member(&['[', a, b, ']'], ci);
    kani::assert(matches!(m2, Some(h) if h == (eq(x, a) || eq(x, b))), "C09.class.positive-group-is-the-union-of-its-characters");
    // [a-b]
    let m3 = cls_member(&['[', a, '-', b, ']'], ci);
    if a <= b {
        let mid = char::from_u32(a as u32 + 1);
        let in_range = if ci {
            eq(x, a) || eq(x, b) || matches!(mid, Some(m) if m <= b && eq(x, m))
        } else {
            a <= x && x <= b
        };
        kani::assert(matches!(m3, Some(h) if h == in_range), "C09.class.range-is-inclusive (every member's case counterpart under i)");
    } else {
        kani::assert(m3.is_none(), "C07.class.reversed-range-rejected");
    }
    kani::cover!(a < b && x == b, "probe is the upper end of a range");
    kani::cover!(!ci || (a < b && x != b && model_eq_ci(x, b)), "probe is the case counterpart of the upper end of a range (flag i)");
    kani::cover!(a > b, "reversed range");
}

//@ harness: g_class_base
//@ props: C09
//@ tier: quick
//@ cost: 120
//@ slice: c09_class_parser
//@ bound: class parser + set algebra (verbatim slices; sets = membership of a symbolic probe) on [a], [ab], [a-b] for ALL non-meta scalar values a,b and ALL probes x, without flag i: exact membership; reversed ranges rejected
//@ encodes: ReCompiler::parse_character_class(slice) CharacterClassBuilder::{union,build}(slice)
std_stubs! { #[kani::unwind(7)] pub(crate) fn g_class_base() { g_base(false) } }

//@ harness: g_class_base_i
//@ props: C09 C11
//@ tier: quick
//@ cost: 200
//@ slice: c09_class_parser
//@ bound: the same with flag i (case mapping = arithmetic model), ranges of at most 3 characters: a member is every character equal to or a case counterpart of a listed character or of ANY character of a range (both ends included)
//@ encodes: ReCompiler::parse_character_class(slice) CharacterClassBuilder::{union,build}(slice)
std_stubs! { #[kani::unwind(7)] pub(crate) fn g_class_base_i() { g_base(true) } }

// ---- class escapes inside a group: [\e] and [a\e] ------------------------------
//@ harness: g_class_escapes
//@ props: C09
//@ tier: thorough
//@ timeout: 3400
//@ cost: 1500
//@ slice: c09_class_parser
//@ bound: [\e] and [a\e] for EVERY scalar value e after the backslash and every non-meta a, all probes: a multi-character escape contributes its set (\s exact; \S \D \W \I \C are the complements of \s \d \w \i \c), a single-character escape contributes that character, anything else is rejected; union with a
//@ encodes: ReCompiler::parse_character_class(slice) ReCompiler::escape(slice) CharacterClassBuilder::{union,complement,build}(slice)
std_stubs! {
    #[kani::unwind(9)]
    pub(crate) fn g_class_escapes() {
        let (x, kh) = set_probe();
        let e: char = kani::any();
        let a: char = kani::any();
        kani::assume(plain(a));
        let ws = x == '\t' || x == '\n' || x == '\r' || x == ' ';
        // what the escape alone denotes (None = not a valid escape inside a class; p/P need more text)
        let esc: Option<bool> = match e {
            'n' => Some(x == '\n'),
            'r' => Some(x == '\r'),
            't' => Some(x == '\t'),
            '\\' | '|' | '.' | '-' | '^' | '?' | '*' | '+' | '{' | '}' | '(' | ')' | '[' | ']' | '$' => Some(x == e),
            's' => Some(ws),
            'S' => Some(!ws),
            'i' => Some(kh[0]),
            'I' => Some(!kh[0]),
            'c' => Some(kh[1]),
            'C' => Some(!kh[1]),
            'd' => Some(kh[2]),
            'D' => Some(!kh[2]),
            'w' => Some(kh[3]),
            'W' => Some(!kh[3]),
            _ => None,
        };
        kani::cover!(e == 'S' && ws, "probe is whitespace, escape is \\S");
        kani::cover!(e == 'd', "\\d");
        kani::cover!(esc.is_none() && e != 'p' && e != 'P', "invalid escape");
        let m1 = cls_member_d(&['[', '\\', e, ']'], false, 0, true);
        let m2 = cls_member_d(&['[', a, '\\', e, ']'], false, 0, true);
        match esc {
            Some(h) => {
                kani::assert(matches!(m1, Some(g) if g == h), "C09.class.escape-denotes-its-set (complements are complements)");
                kani::assert(matches!(m2, Some(g) if g == (h || x == a)), "C09.class.escape-unions-with-characters");
            }
            None => {
                kani::assert(m1.is_none() && m2.is_none(), "C07.class.invalid-escape-rejected");
            }
        }
    }
}

// ---- laws over arbitrary group contents -----------------------------------------
fn sym_part<const N: usize>() -> ([char; N], usize) {
    let (t, len) = sym_arr::<N>();
    (t, len)
}

/// '[' ++ pre ++ g[..lg] ++ mid ++ h[..lh] ++ post   into a fixed buffer
fn compose(pre: &[char], g: &[char], mid: &[char], h: &[char], post: &[char]) -> ([char; 16], usize) {
    let mut out = ['\0'; 16];
    let mut n = 0;
    for part in [pre, g, mid, h, post] {
        let mut i = 0;
        while i < part.len() {
            out[n] = part[i];
            n += 1;
            i += 1;
        }
    }
    (out, n)
}

//@ harness: g_class_negation_law
//@ props: C09
//@ tier: quick
//@ cost: 300
//@ slice: c09_class_parser
//@ bound: for EVERY backslash-free group content G of <= 3 chars over all scalar values (not starting with '^', no nested subtraction) and every probe: [^G] is accepted iff [G] is, and then denotes exactly the complement
//@ encodes: ReCompiler::parse_character_class(slice) ReCompiler::escape(slice) CharacterClassBuilder::{union,complement,difference,build}(slice)
std_stubs! {
    #[kani::unwind(10)]
    pub(crate) fn g_class_negation_law() {
        let (x, _kh) = set_probe();
        let (g, lg) = sym_part::<3>();
        kani::assume(lg == 0 || g[0] != '^');
        let (t1, n1) = compose(&['['], &g[..lg], &[], &[], &[']']);
        let (t2, n2) = compose(&['[', '^'], &g[..lg], &[], &[], &[']']);
        let m1 = cls_member(&t1[..n1], false);
        let m2 = cls_member(&t2[..n2], false);
        kani::cover!(matches!(m1, Some(true)), "probe is a member of [G]");
        kani::cover!(matches!(m1, Some(false)), "probe is not a member of [G]");
        kani::cover!(m1.is_none() && lg == 3, "[G] rejected");
        kani::assert(m1.is_some() == m2.is_some(), "C09.class.negative-group-accepted-iff-positive-group-is");
        if let (Some(a), Some(b)) = (m1, m2) {
            kani::assert(a != b, "C09.class.negative-group-is-the-complement");
        }
    }
}

fn g_subtraction<const NG: usize, const NH: usize>() {
    let (x, _kh) = set_probe();
    let (g, lg) = sym_part::<NG>();
    let (h, lh) = sym_part::<NH>();
    kani::assume(lg > 0 && g[lg - 1] != '-');
    let (t1, n1) = compose(&['['], &g[..lg], &[], &[], &[']']);
    let (t2, n2) = compose(&['['], &h[..lh], &[], &[], &[']']);
    let (t3, n3) = compose(&['['], &g[..lg], &['-', '['], &h[..lh], &[']', ']']);
    let m1 = cls_member(&t1[..n1], false);
    let m2 = cls_member(&t2[..n2], false);
    kani::assume(m1.is_some() && m2.is_some());
    let m3 = cls_member_d(&t3[..n3], false, 1, false);
    kani::cover!(matches!((m1, m2), (Some(true), Some(true))), "probe in both G and H");
    kani::cover!(matches!((m1, m2), (Some(true), Some(false))), "probe in G only");
    kani::cover!(NG < 2 || (lg == 2 && g[0] == '^'), "G is a negative group");
    match (m1, m2, m3) {
        (Some(a), Some(b), Some(c)) => kani::assert(c == (a && !b), "C09.class.subtraction-is-set-difference"),
        _ => kani::assert(false, "C09.class.subtraction-of-two-valid-groups-accepted"),
    }
    }

//@ harness: g_class_subtraction_law
//@ props: C09
//@ tier: thorough
//@ timeout: 3400
//@ cost: 3000
//@ slice: c09_class_parser
//@ bound: for EVERY single character G and H over all scalar values such that [G] and [H] are accepted: [G-[H]] is accepted and denotes [G] minus [H], for every probe
//@ encodes: ReCompiler::parse_character_class(slice) CharacterClassBuilder::{union,complement,difference,build}(slice)
std_stubs! { #[kani::unwind(10)] pub(crate) fn g_class_subtraction_law() { g_subtraction::<1, 1>() } }

//@ harness: g_class_union_law
//@ props: C09
//@ tier: quick
//@ cost: 400
//@ slice: c09_class_parser
//@ bound: for EVERY backslash-free G and H of <= 2 chars over all scalar values such that [G] and [H] are accepted, G is positive and does not end with '-', H does not start with '^' or '-': [GH] is accepted and denotes the union, for every probe
//@ encodes: ReCompiler::parse_character_class(slice) ReCompiler::escape(slice) CharacterClassBuilder::{union,build}(slice)
std_stubs! {
    #[kani::unwind(10)]
    pub(crate) fn g_class_union_law() {
        let (x, _kh) = set_probe();
        let (g, lg) = sym_part::<2>();
        let (h, lh) = sym_part::<2>();
        kani::assume(lg > 0 && g[0] != '^' && g[lg - 1] != '-');
        kani::assume(lh > 0 && h[0] != '^' && h[0] != '-');
        let (t1, n1) = compose(&['['], &g[..lg], &[], &[], &[']']);
        let (t2, n2) = compose(&['['], &h[..lh], &[], &[], &[']']);
        let (t3, n3) = compose(&['['], &g[..lg], &[], &h[..lh], &[']']);
        let m1 = cls_member(&t1[..n1], false);
        let m2 = cls_member(&t2[..n2], false);
        kani::assume(m1.is_some() && m2.is_some());
        let m3 = cls_member(&t3[..n3], false);
        kani::cover!(matches!((m1, m2), (Some(false), Some(true))), "probe in H only");
        kani::cover!(lg == 2 && lh == 2, "two-character operands");
        match (m1, m2, m3) {
            (Some(a), Some(b), Some(c)) => kani::assert(c == (a || b), "C09.class.juxtaposition-is-union"),
            _ => kani::assert(false, "C09.class.juxtaposition-of-two-valid-groups-accepted"),
        }
    }
}
