// ===== Family F: compiler leaf units reachable on symbolic text =============

fn d1(c: char) -> Option<usize> {
    if c >= '0' && c <= '9' { Some((c as usize) - ('0' as usize)) } else { None }
}

// ---- ReCompiler::bracket ({n}, {n,}, {n,m}) as a verbatim slice -------------
fn f_bracket<const N: usize>() {
    // text = '{' followed by up to N-1 arbitrary chars
    let (t, len) = sym_arr::<N>();
    kani::assume(len >= 1 && t[0] == '{');
    // reference parser, from the grammar: '{' digits ( '}' | ',' '}' | ',' digits '}' )
    let mut i = 1;
    let mut n1: usize = 0;
    let mut d1n = 0;
    let mut k = 0;
    while k < N {
        if i < len && i == 1 + d1n {
            if let Some(d) = d1(t[i]) {
                n1 = n1 * 10 + d;
                d1n += 1;
                i += 1;
            }
        }
        k += 1;
    }
    let mut want: Option<(usize, usize, usize)> = None; // (min, max, cursor after '}')
    if d1n > 0 && i < len {
        if t[i] == '}' {
            want = Some((n1, n1, i + 1));
        } else if t[i] == ',' {
            i += 1;
            if i < len && t[i] == '}' {
                want = Some((n1, usize::MAX, i + 1));
            } else {
                let start2 = i;
                let mut n2: usize = 0;
                let mut d2n = 0;
                let mut k = 0;
                while k < N {
                    if i < len && i == start2 + d2n {
                        if let Some(d) = d1(t[i]) {
                            n2 = n2 * 10 + d;
                            d2n += 1;
                            i += 1;
                        }
                    }
                    k += 1;
                }
                if d2n > 0 && i < len && t[i] == '}' && n1 <= n2 {
                    want = Some((n1, n2, i + 1));
                }
            }
        }
    }
    kani::cover!(matches!(want, Some((a, b, _)) if a < b && b != usize::MAX), "valid {n,m} with n<m");
    kani::cover!(matches!(want, Some((_, b, _)) if b == usize::MAX), "valid {n,}");
    kani::cover!(want.is_none() && len == N, "malformed quantifier");
    kani::cover!(N < 5 || (want.is_none() && len >= 5 && d1(t[1]).is_some() && t[2] == ',' && d1(t[3]).is_some() && t[4] == '}'), "reversed bounds {n,m} with n>m");
    let mut v = slice_c07::View { pattern: BArr { a: ['\0'; 8], n: len }, len, idx: 0, bracket_min: 0, bracket_max: 0 };
    let mut q = 0;
    while q < N {
        v.pattern.a[q] = t[q];
        q += 1;
    }
    match v.bracket() {
        Ok(()) => {
            kani::assert(want.is_some(), "C07.bracket.rejects-malformed-or-reversed-bounds");
            kani::assert(matches!(want, Some((a, b, c)) if a == v.bracket_min && b == v.bracket_max && c == v.idx), "C07.bracket.bounds-and-cursor");
        }
        Err(e) => {
            kani::assert(want.is_none(), "C07.bracket.accepts-every-valid-quantifier");
            kani::assert(matches!(e, slice_c07::Error::Syntax), "C05.bracket.error-is-Syntax-not-Internal");
        }
    }
}

//@ harness: f_bracket_n6
//@ props: C07 C05
//@ tier: quick
//@ cost: 100
//@ slice: c07_bracket
//@ bound: body of ReCompiler::bracket (verbatim slice; String -> BStr, self -> view) on EVERY text '{' + up to 5 chars over all scalar values: Ok iff {n}, {n,} or {n,m} with digit strings and n<=m, with the right bounds and cursor; otherwise Err(Syntax), never Err(Internal); no index error
//@ encodes: ReCompiler::bracket(slice)
std_stubs! { #[kani::unwind(9)] pub(crate) fn f_bracket_n6() { f_bracket::<6>() } }

//@ harness: f_bracket_n8
//@ props: C07 C05
//@ tier: thorough
//@ cost: 600
//@ slice: c07_bracket
//@ bound: body of ReCompiler::bracket (verbatim slice) on EVERY text '{' + up to 7 chars over all scalar values
//@ encodes: ReCompiler::bracket(slice)
std_stubs! { #[kani::unwind(11)] pub(crate) fn f_bracket_n8() { f_bracket::<8>() } }

// ---- first-character set of a literal (the soundness condition of the
//      "following term is disjoint" rewrite): must contain every character the
//      literal's first character can match -----------------------------------
fn f_firstset(c: char) {
    let a = Atom::new(vec![c, 'z']);
    let x: char = kani::any();
    kani::cover!(x != c && model_eq_ci(x, c) || c == '1', "a case counterpart other than the character itself");
    kani::cover!(x == c, "the character itself");
    let cb = a.get_initial_character_class(true);
    kani::assert(!model_eq_ci(x, c) || cb.contains(x), "C11.first-set.case-blind-contains-every-matching-char");
    let cs = a.get_initial_character_class(false);
    kani::assert(cs.contains(x) == (x == c), "C08.first-set.case-sensitive-is-exactly-the-char");
    std::mem::forget(cb);
    std::mem::forget(cs);
    std::mem::forget(a);
}

//@ harness: f_firstset_letter
//@ props: C11 C08
//@ tier: quick
//@ cost: 300
//@ bound: Atom['k','z'].get_initial_character_class(case_blind) (real ICU case closure + inversion-list builder on a concrete literal) queried with EVERY scalar value x: contains x whenever x is 'k' or its case counterpart; exactly {'k'} when not case-blind
//@ encodes: Atom::get_initial_character_class CharacterClass::contains
icu_stubs! { #[kani::unwind(12)] pub(crate) fn f_firstset_letter() { f_firstset('k') } }

//@ harness: f_firstset_caseless
//@ props: C11 C08
//@ tier: quick
//@ cost: 300
//@ bound: Atom['1','z'].get_initial_character_class(case_blind) queried with EVERY scalar value x: contains '1' (a character without case variants); exactly {'1'} when not case-blind
//@ encodes: Atom::get_initial_character_class CharacterClass::contains
icu_stubs! { #[kani::unwind(12)] pub(crate) fn f_firstset_caseless() { f_firstset('1') } }

// ---- CharacterClass::is_disjoint: "may not give false positives" -------------
//@ harness: f_is_disjoint_sound
//@ props: C08
//@ tier: thorough
//@ timeout: 3400
//@ cost: 3000
//@ bound: CharacterClass{x}.is_disjoint(CharacterClass[lo,hi)) for ALL scalar values x and ALL ranges lo<hi (static inversion lists): a `true` answer implies x is not in [lo,hi); ranges longer than the 100-character scan threshold included
//@ encodes: CharacterClass::is_disjoint CharacterClass::contains
std_stubs! {
    #[kani::unwind(105)]
    pub(crate) fn f_is_disjoint_sound() {
        let x: char = kani::any();
        let lo: u32 = kani::any();
        let hi: u32 = kani::any();
        kani::assume(lo < hi && hi <= 0xD800);
        let me = static_class(&[x as u32, x as u32 + 1]);
        let other = static_class(&[lo, hi]);
        let really_disjoint = !((x as u32) >= lo && (x as u32) < hi);
        kani::cover!(!really_disjoint && (x as u32) > lo + 150, "overlap only beyond the scan threshold");
        kani::cover!(really_disjoint && hi - lo < 50, "short disjoint range");
        let d = me.is_disjoint(&other);
        kani::assert(!d || really_disjoint, "C08.is-disjoint.no-false-positive");
        kani::assert(d || !really_disjoint || hi - lo > 100, "C08.is-disjoint.short-disjoint-ranges-recognised");
        std::mem::forget(me);
        std::mem::forget(other);
    }
}

// ---- ReCompiler::no_ambiguity: when may `X*` stop backtracking? -------------
// Soundness conditions the non-backtracking rewrite relies on: never when the
// next term can match the empty string (a repeat with min 0), never when the
// first sets overlap; for reluctant repeats never before the end of the program.
fn rep_next(kind: u8, letter: char, min: usize, max: usize) -> Operation {
    let child = Operation::from(Atom::new(vec![letter]));
    match kind {
        0 => Operation::from(GreedyFixed::new(child, min, max, 1)),
        1 => Operation::from(ReluctantFixed::new(child, min, max, 1)),
        2 => Operation::from(UnambiguousRepeat::new(child, min, max)),
        3 => Operation::from(Repeat::new(child, min, max, true)),
        _ => Operation::from(Repeat::new(child, min, max, false)),
    }
}

fn f_no_ambiguity_nullable(kind: u8) {
    let op0 = Operation::from(Atom::new(vec!['a']));
    let unbounded: bool = kani::any();
    let op1 = rep_next(kind, 'b', 0, if unbounded { usize::MAX } else { 1 });
    let case_blind: bool = kani::any();
    let reluctant: bool = kani::any();
    kani::cover!(unbounded && !reluctant, "star after a greedy repeat");
    kani::cover!(!unbounded && case_blind, "optional term, case-blind");
    let r = crate::re_compiler::ReCompiler::no_ambiguity(&op0, &op1, case_blind, reluctant);
    kani::assert(!r, "C08.no-ambiguity.never-before-a-term-that-can-match-empty");
    std::mem::forget(op0);
    std::mem::forget(op1);
}

//@ harness: f_no_ambiguity_nullable_greedyfixed
//@ props: C08 C01
//@ tier: quick
//@ cost: 60
//@ bound: ReCompiler::no_ambiguity(Atom['a'], GreedyFixed over Atom['b'] with min = 0 and max in {1, unbounded}, case_blind, reluctant), all flag combinations: must be false - the next term can match the empty string, so the repeat before it has to keep backtracking
//@ encodes: ReCompiler::no_ambiguity Operation::repeat_operation
icu_stubs! { #[kani::unwind(12)] pub(crate) fn f_no_ambiguity_nullable_greedyfixed() { f_no_ambiguity_nullable(0) } }

//@ harness: f_no_ambiguity_nullable_reluctantfixed
//@ props: C08 C01
//@ tier: quick
//@ cost: 60
//@ bound: ReCompiler::no_ambiguity(Atom['a'], ReluctantFixed over Atom['b'] with min = 0 and max in {1, unbounded}, case_blind, reluctant), all flag combinations: must be false - the next term can match the empty string, so the repeat before it has to keep backtracking
//@ encodes: ReCompiler::no_ambiguity Operation::repeat_operation
icu_stubs! { #[kani::unwind(12)] pub(crate) fn f_no_ambiguity_nullable_reluctantfixed() { f_no_ambiguity_nullable(1) } }

//@ harness: f_no_ambiguity_nullable_unambiguous
//@ props: C08 C01
//@ tier: quick
//@ cost: 60
//@ bound: ReCompiler::no_ambiguity(Atom['a'], UnambiguousRepeat over Atom['b'] with min = 0 and max in {1, unbounded}, case_blind, reluctant), all flag combinations: must be false - the next term can match the empty string, so the repeat before it has to keep backtracking
//@ encodes: ReCompiler::no_ambiguity Operation::repeat_operation
icu_stubs! { #[kani::unwind(12)] pub(crate) fn f_no_ambiguity_nullable_unambiguous() { f_no_ambiguity_nullable(2) } }

//@ harness: f_no_ambiguity_nullable_repeat_greedy
//@ props: C08 C01
//@ tier: quick
//@ cost: 60
//@ bound: ReCompiler::no_ambiguity(Atom['a'], greedy variable Repeat over Atom['b'] with min = 0 and max in {1, unbounded}, case_blind, reluctant), all flag combinations: must be false - the next term can match the empty string, so the repeat before it has to keep backtracking
//@ encodes: ReCompiler::no_ambiguity Operation::repeat_operation
icu_stubs! { #[kani::unwind(12)] pub(crate) fn f_no_ambiguity_nullable_repeat_greedy() { f_no_ambiguity_nullable(3) } }

//@ harness: f_no_ambiguity_nullable_repeat_reluctant
//@ props: C08 C01
//@ tier: quick
//@ cost: 60
//@ bound: ReCompiler::no_ambiguity(Atom['a'], reluctant variable Repeat over Atom['b'] with min = 0 and max in {1, unbounded}, case_blind, reluctant), all flag combinations: must be false - the next term can match the empty string, so the repeat before it has to keep backtracking
//@ encodes: ReCompiler::no_ambiguity Operation::repeat_operation
icu_stubs! { #[kani::unwind(12)] pub(crate) fn f_no_ambiguity_nullable_repeat_reluctant() { f_no_ambiguity_nullable(4) } }

//@ harness: f_no_ambiguity_end
//@ props: C08
//@ tier: quick
//@ cost: 30
//@ bound: ReCompiler::no_ambiguity(Atom['a'], EndProgram, case_blind, reluctant), all flag combinations: true iff the repeat is greedy (a reluctant repeat before the end must keep backtracking)
//@ encodes: ReCompiler::no_ambiguity
icu_stubs! {
    #[kani::unwind(12)]
    pub(crate) fn f_no_ambiguity_end() {
        let op0 = Operation::from(Atom::new(vec!['a']));
        let op1 = Operation::from(EndProgram);
        let case_blind: bool = kani::any();
        let reluctant: bool = kani::any();
        kani::cover!(reluctant, "reluctant repeat before the end of the program");
        kani::cover!(!reluctant, "greedy repeat before the end of the program");
        let r = crate::re_compiler::ReCompiler::no_ambiguity(&op0, &op1, case_blind, reluctant);
        kani::assert(r == !reluctant, "C08.no-ambiguity.reluctant-repeat-must-backtrack-before-end");
        std::mem::forget(op0);
        std::mem::forget(op1);
    }
}
