// ===== Family F: compiler leaf units reachable on symbolic text =============

fn d1(c: char) -> Option<usize> {
    if c >= '0' && c <= '9' { Some((c as usize) - ('0' as usize)) } else { None }
}

// ---- ReCompiler::bracket ({n}, {n,}, {n,m}) as a verbatim slice -------------
fn f_bracket<const N: usize>() {
    // text = '{' followed by up to N-1 arbitrary chars
    let (t, len) = sym_arr::<N>();
    kani::assume(len >= 1 && t[0] == '{');
    // reference parser, from the grammar: '{' digits ( '}' | ',' '}' | ',' digits '}' )
    let mut i = 1;
    let mut n1: usize = 0;
    let mut d1n = 0;
    let mut k = 0;
    while k < N {
        if i < len && i == 1 + d1n {
            if let Some(d) = d1(t[i]) {
                n1 = n1 * 10 + d;
                d1n += 1;
                i += 1;
            }
        }
        k += 1;
    }
    let mut want: Option<(usize, usize, usize)> = None; // (min, max, cursor after '}')
    if d1n > 0 && i < len {
        if t[i] == '}' {
            want = Some((n1, n1, i + 1));
        } else if t[i] == ',' {
            i += 1;
            if i < len && t[i] == '}' {
                want = Some((n1, usize::MAX, i + 1));
            } else {
                let start2 = i;
                let mut n2: usize = 0;
                let mut d2n = 0;
                let mut k = 0;
                while k < N {
                    if i < len && i == start2 + d2n {
                        if let Some(d) = d1(t[i]) {
                            n2 = n2 * 10 + d;
                            d2n += 1;
                            i += 1;
                        }
                    }
                    k += 1;
                }
                if d2n > 0 && i < len && t[i] == '}' && n1 <= n2 {
                    want = Some((n1, n2, i + 1));
                }
            }
        }
    }
    kani::cover!(matches!(want, Some((a, b, _)) if a < b && b != usize::MAX), "valid {n,m} with n<m");
    kani::cover!(matches!(want, Some((_, b, _)) if b == usize::MAX), "valid {n,}");
    kani::cover!(want.is_none() && len == N, "malformed quantifier");
    kani::cover!(N < 5 || (want.is_none() && len >= 5 && d1(t[1]).is_some() && t[2] == ',' && d1(t[3]).is_some() && t[4] == '}'), "reversed bounds {n,m} with n>m");
    let mut v = slice_c07::View { pattern: BArr { a: ['\0'; 8], n: len }, len, idx: 0, bracket_min: 0, bracket_max: 0 };
    let mut q = 0;
    while q < N {
        v.pattern.a[q] = t[q];
        q += 1;
    }
    match v.bracket() {
        Ok(()) => {
            kani::assert(want.is_some(), "C07.bracket.rejects-malformed-or-reversed-bounds");
            kani::assert(matches!(want, Some((a, b, c)) if a == v.bracket_min && b == v.bracket_max && c == v.idx), "C07.bracket.bounds-and-cursor");
        }
        Err(e) => {
            kani::assert(want.is_none(), "C07.bracket.accepts-every-valid-quantifier");
            kani::assert(matches!(e, slice_c07::Error::Syntax), "C05.bracket.error-is-Syntax-not-Internal");
        }
    }
}

//@ harness: f_bracket_n6
//@ props: C07 C05
//@ tier: quick
//@ cost: 100
//@ slice: c07_bracket
//@ bound: body of ReCompiler::bracket (verbatim slice; String -> BStr, self -> view) on EVERY text '{' + up to 5 chars over all scalar values: Ok iff {n}, {n,} or {n,m} with digit strings and n<=m, with the right bounds and cursor; otherwise Err(Syntax), never Err(Internal); no index error
//@ encodes: ReCompiler::bracket(slice)
std_stubs! { #[kani::unwind(9)] pub(crate) fn f_bracket_n6() { f_bracket::<6>() } }

//@ harness: f_bracket_n8
//@ props: C07 C05
//@ tier: thorough
//@ cost: 600
//@ slice: c07_bracket
//@ bound: body of ReCompiler::bracket (verbatim slice) on EVERY text '{' + up to 7 chars over all scalar values
//@ encodes: ReCompiler::bracket(slice)
std_stubs! { #[kani::unwind(11)] pub(crate) fn f_bracket_n8() { f_bracket::<8>() } }

// ---- first-character set of a literal (the soundness condition of the
//      "following term is disjoint" rewrite): must contain every character the
//      literal's first character can match -----------------------------------
fn f_firstset(c: char) {
    let a = Atom::new(vec![c, 'z']);
    let x: char = kani::any();
    kani::cover!(x != c && model_eq_ci(x, c) || c == '1', "a case counterpart other than the character itself");
    kani::cover!(x == c, "the character itself");
    let cb = a.get_initial_character_class(true);
    kani::assert(!model_eq_ci(x, c) || cb.contains(x), "C11.first-set.case-blind-contains-every-matching-char");
    let cs = a.get_initial_character_class(false);
    kani::assert(cs.contains(x) == (x == c), "C08.first-set.case-sensitive-is-exactly-the-char");
    std::mem::forget(cb);
    std::mem::forget(cs);
    std::mem::forget(a);
}

//@ harness: f_firstset_letter
//@ props: C11 C08
//@ tier: quick
//@ cost: 300
//@ bound: Atom['k','z'].get_initial_character_class(case_blind) (real ICU case closure + inversion-list builder on a concrete literal) queried with EVERY scalar value x: contains x whenever x is 'k' or its case counterpart; exactly {'k'} when not case-blind
//@ encodes: Atom::get_initial_character_class CharacterClass::contains
icu_stubs! { #[kani::unwind(12)] pub(crate) fn f_firstset_letter() { f_firstset('k') } }

//@ harness: f_firstset_caseless
//@ props: C11 C08
//@ tier: quick
//@ cost: 300
//@ bound: Atom['1','z'].get_initial_character_class(case_blind) queried with EVERY scalar value x: contains '1' (a character without case variants); exactly {'1'} when not case-blind
//@ encodes: Atom::get_initial_character_class CharacterClass::contains
icu_stubs! { #[kani::unwind(12)] pub(crate) fn f_firstset_caseless() { f_firstset('1') } }

// ---- ReCompiler::no_ambiguity: when may `X*` stop backtracking? -------------
// Soundness conditions the non-backtracking rewrite relies on: never when the
// next term can match the empty string (a repeat with min 0), never when the
// first sets overlap; for reluctant repeats never before the end of the program.
fn rep_next(kind: u8, letter: char, min: usize, max: usize) -> Operation {
    let child = Operation::from(Atom::new(vec![letter]));
    match kind {
        0 => Operation::from(GreedyFixed::new(child, min, max, 1)),
        1 => Operation::from(ReluctantFixed::new(child, min, max, 1)),
        2 => Operation::from(UnambiguousRepeat::new(child, min, max)),
        3 => Operation::from(Repeat::new(child, min, max, true)),
        _ => Operation::from(Repeat::new(child, min, max, false)),
    }
}

fn f_no_ambiguity_nullable(kind: u8) {
    let op0 = Operation::from(Atom::new(vec!['a']));
    let unbounded: bool = kani::any();
    let op1 = rep_next(kind, 'b', 0, if unbounded { usize::MAX } else { 1 });
    let case_blind: bool = kani::any();
    let reluctant: bool = kani::any();
    kani::cover!(unbounded && !reluctant, "star after a greedy repeat");
    kani::cover!(!unbounded && case_blind, "optional term, case-blind");
    let r = crate::re_compiler::ReCompiler::no_ambiguity(&op0, &op1, case_blind, reluctant);
    kani::assert(!r, "C08.no-ambiguity.never-before-a-term-that-can-match-empty");
    std::mem::forget(op0);
    std::mem::forget(op1);
}

//@ harness: f_no_ambiguity_nullable_greedyfixed
//@ props: C08 C01
//@ tier: quick
//@ cost: 60
//@ bound: ReCompiler::no_ambiguity(Atom['a'], GreedyFixed over Atom['b'] with min = 0 and max in {1, unbounded}, case_blind, reluctant), all flag combinations: must be false - the next term can match the empty string, so the repeat before it has to keep backtracking
//@ encodes: ReCompiler::no_ambiguity Operation::repeat_operation (CharacterClass::is_disjoint stubbed by an arbitrary answer)
nodisjoint_stubs! { #[kani::unwind(12)] pub(crate) fn f_no_ambiguity_nullable_greedyfixed() { f_no_ambiguity_nullable(0) } }

//@ harness: f_no_ambiguity_nullable_reluctantfixed
//@ props: C08 C01
//@ tier: quick
//@ cost: 60
//@ bound: ReCompiler::no_ambiguity(Atom['a'], ReluctantFixed over Atom['b'] with min = 0 and max in {1, unbounded}, case_blind, reluctant), all flag combinations: must be false - the next term can match the empty string, so the repeat before it has to keep backtracking
//@ encodes: ReCompiler::no_ambiguity Operation::repeat_operation (CharacterClass::is_disjoint stubbed by an arbitrary answer)
nodisjoint_stubs! { #[kani::unwind(12)] pub(crate) fn f_no_ambiguity_nullable_reluctantfixed() { f_no_ambiguity_nullable(1) } }

//@ harness: f_no_ambiguity_nullable_unambiguous
//@ props: C08 C01
//@ tier: quick
//@ cost: 60
//@ bound: ReCompiler::no_ambiguity(Atom['a'], UnambiguousRepeat over Atom['b'] with min = 0 and max in {1, unbounded}, case_blind, reluctant), all flag combinations: must be false - the next term can match the empty string, so the repeat before it has to keep backtracking
//@ encodes: ReCompiler::no_ambiguity Operation::repeat_operation (CharacterClass::is_disjoint stubbed by an arbitrary answer)
nodisjoint_stubs! { #[kani::unwind(12)] pub(crate) fn f_no_ambiguity_nullable_unambiguous() { f_no_ambiguity_nullable(2) } }

//@ harness: f_no_ambiguity_nullable_repeat_greedy
//@ props: C08 C01
//@ tier: quick
//@ cost: 60
//@ bound: ReCompiler::no_ambiguity(Atom['a'], greedy variable Repeat over Atom['b'] with min = 0 and max in {1, unbounded}, case_blind, reluctant), all flag combinations: must be false - the next term can match the empty string, so the repeat before it has to keep backtracking
//@ encodes: ReCompiler::no_ambiguity Operation::repeat_operation (CharacterClass::is_disjoint stubbed by an arbitrary answer)
nodisjoint_stubs! { #[kani::unwind(12)] pub(crate) fn f_no_ambiguity_nullable_repeat_greedy() { f_no_ambiguity_nullable(3) } }

//@ harness: f_no_ambiguity_nullable_repeat_reluctant
//@ props: C08 C01
//@ tier: quick
//@ cost: 60
//@ bound: ReCompiler::no_ambiguity(Atom['a'], reluctant variable Repeat over Atom['b'] with min = 0 and max in {1, unbounded}, case_blind, reluctant), all flag combinations: must be false - the next term can match the empty string, so the repeat before it has to keep backtracking
//@ encodes: ReCompiler::no_ambiguity Operation::repeat_operation (CharacterClass::is_disjoint stubbed by an arbitrary answer)
nodisjoint_stubs! { #[kani::unwind(12)] pub(crate) fn f_no_ambiguity_nullable_repeat_reluctant() { f_no_ambiguity_nullable(4) } }

//@ harness: f_no_ambiguity_end
//@ props: C08
//@ tier: quick
//@ cost: 30
//@ bound: ReCompiler::no_ambiguity(Atom['a'], EndProgram, case_blind, reluctant), all flag combinations: true iff the repeat is greedy (a reluctant repeat before the end must keep backtracking)
//@ encodes: ReCompiler::no_ambiguity
icu_stubs! {
    #[kani::unwind(12)]
    pub(crate) fn f_no_ambiguity_end() {
        let op0 = Operation::from(Atom::new(vec!['a']));
        let op1 = Operation::from(EndProgram);
        let case_blind: bool = kani::any();
        let reluctant: bool = kani::any();
        kani::cover!(reluctant, "reluctant repeat before the end of the program");
        kani::cover!(!reluctant, "greedy repeat before the end of the program");
        let r = crate::re_compiler::ReCompiler::no_ambiguity(&op0, &op1, case_blind, reluctant);
        kani::assert(r == !reluctant, "C08.no-ambiguity.reluctant-repeat-must-backtrack-before-end");
        std::mem::forget(op0);
        std::mem::forget(op1);
    }
}

// ---- ReCompiler::escape as a verbatim slice (C07, C17, C19, C05) -------------
#[derive(Clone, Copy, PartialEq, Eq)]
enum EscWant {
    Char(char),
    Class(slice_esc::Kind, bool),
    BackRef(usize),
    Reject,
    BlockName, // \p{Is..}: acceptance depends on the block table (not modelled)
}

fn is_single_char_escape(e: char) -> bool {
    matches!(e, '\\' | '|' | '.' | '-' | '^' | '?' | '*' | '+' | '{' | '}' | '(' | ')' | '[' | ']')
}

fn valid_category(a: char, b: char, n: usize) -> bool {
    match n {
        1 => matches!(a, 'L' | 'M' | 'N' | 'P' | 'Z' | 'S' | 'C'),
        2 => match a {
            'L' => matches!(b, 'u' | 'l' | 't' | 'm' | 'o'),
            'M' => matches!(b, 'n' | 'c' | 'e'),
            'N' => matches!(b, 'd' | 'l' | 'o'),
            'P' => matches!(b, 'c' | 'd' | 's' | 'e' | 'i' | 'f' | 'o'),
            'Z' => matches!(b, 's' | 'l' | 'p'),
            'S' => matches!(b, 'm' | 'c' | 'k' | 'o'),
            'C' => matches!(b, 'c' | 'f' | 'o' | 'n'),
            _ => false,
        },
        _ => false,
    }
}

fn f_escape<const N: usize>(xpath: bool) {
    use slice_esc::Kind;
    let (t, len) = sym_arr::<N>();
    kani::assume(len >= 1 && t[0] == '\\');
    let in_sq: bool = kani::any();
    let open: usize = kani::any(); // capturing_open_paren_count = groups opened so far + 1
    kani::assume(open >= 1 && open <= 13);
    let closed: [bool; 16] = [
        false, kani::any(), kani::any(), kani::any(), kani::any(), kani::any(), kani::any(), kani::any(),
        kani::any(), kani::any(), kani::any(), kani::any(), kani::any(), false, false, false,
    ];
    // ---- reference, written from the grammar / the property statements -------
    let mut want = EscWant::Reject;
    let mut want_idx = 2;
    if len >= 2 {
        let e = t[1];
        if e == 'n' {
            want = EscWant::Char('\n');
        } else if e == 'r' {
            want = EscWant::Char('\r');
        } else if e == 't' {
            want = EscWant::Char('\t');
        } else if is_single_char_escape(e) {
            want = EscWant::Char(e);
        } else if e == '$' {
            if xpath {
                want = EscWant::Char('$');
            }
        } else if e == 's' || e == 'S' {
            want = EscWant::Class(Kind::Space, e == 'S');
        } else if e == 'i' || e == 'I' {
            want = EscWant::Class(Kind::NameStart, e == 'I');
        } else if e == 'c' || e == 'C' {
            want = EscWant::Class(Kind::NameChar, e == 'C');
        } else if e == 'd' || e == 'D' {
            want = EscWant::Class(Kind::Digit, e == 'D');
        } else if e == 'w' || e == 'W' {
            want = EscWant::Class(Kind::Word, e == 'W');
        } else if e == 'p' || e == 'P' {
            if len >= 3 && t[2] == '{' {
                // first '}' at or after index 3
                let mut close = N;
                let mut k = 3;
                while k < N {
                    if k < len && close == N && t[k] == '}' {
                        close = k;
                    }
                    k += 1;
                }
                if close < N {
                    let n = close - 3;
                    if n == 1 || n == 2 {
                        if valid_category(t[3], if n == 2 { t[4] } else { '\0' }, n) {
                            want = EscWant::Class(Kind::Category, e == 'P');
                            want_idx = close + 1;
                        }
                    } else if n >= 2 && t[3] == 'I' && t[4] == 's' {
                        want = EscWant::BlockName;
                        want_idx = close + 1;
                    }
                }
            }
        } else if e >= '1' && e <= '9' {
            if !in_sq && xpath {
                // longest number that does not exceed the number of groups opened so far
                let mut n = (e as usize) - ('0' as usize);
                let mut i = 2;
                let mut go = true;
                let mut k = 2;
                while k < N {
                    if go && i < len && t[i] >= '0' && t[i] <= '9' && n * 10 + ((t[i] as usize) - ('0' as usize)) <= open - 1 {
                        n = n * 10 + ((t[i] as usize) - ('0' as usize));
                        i += 1;
                    } else {
                        go = false;
                    }
                    k += 1;
                }
                if n < 16 && closed[n] {
                    want = EscWant::BackRef(n);
                    want_idx = i;
                }
            }
        }
    }
    kani::cover!(!xpath || matches!(want, EscWant::BackRef(n) if n >= 10), "two-digit back-reference");
    kani::cover!(!xpath || (len >= 3 && t[1] == '1' && t[2] >= '0' && t[2] <= '9' && matches!(want, EscWant::BackRef(1))), "digit after \\1 left as a literal");
    kani::cover!(matches!(want, EscWant::Class(Kind::Category, true)), "complemented category escape");
    kani::cover!(matches!(want, EscWant::Class(Kind::Word, false)), "\\w");
    kani::cover!(len == 1, "escape terminates the pattern");
    kani::cover!(xpath || (len >= 2 && t[1] == '$'), "\\$ under XSD");
    kani::cover!(N < 7 || matches!(want, EscWant::BlockName), "block escape");
    let mut v = slice_esc::View {
        pattern: &t[..len],
        len,
        idx: 0,
        capturing_open_paren_count: open,
        captures: slice_esc::Caps { closed },
        has_back_references: false,
        re_flags: slice_esc::Flags { lang: if xpath { slice_esc::Language::XPath } else { slice_esc::Language::XSD } },
    };
    let got = v.escape(in_sq);
    match got {
        Ok(slice_esc::CharacterClassOrBackReference::CharacterClass(slice_esc::CharacterClassBuilder::Char(c))) => {
            kani::assert(matches!(want, EscWant::Char(w) if w == c), "C07.escape.single-character-escape");
            kani::assert(v.idx == 2, "C07.escape.cursor");
        }
        Ok(slice_esc::CharacterClassOrBackReference::CharacterClass(
            slice_esc::CharacterClassBuilder::CodePointInversionListBuilder(tag),
        )) => {
            kani::assert(
                matches!(want, EscWant::Class(k, neg) if k == tag.kind && neg == tag.negated)
                    || (matches!(want, EscWant::BlockName) && tag.kind == Kind::Block && tag.negated == (t[1] == 'P')),
                "C07.escape.class-escape-denotes-the-right-class-and-complement",
            );
            kani::assert(v.idx == want_idx, "C07.escape.cursor-after-class-escape");
        }
        Ok(slice_esc::CharacterClassOrBackReference::BackReference(n)) => {
            kani::assert(matches!(want, EscWant::BackRef(w) if w == n), "C19.escape.back-reference-number (longest valid, closed group, XPath only, not in a class)");
            kani::assert(v.idx == want_idx, "C19.escape.remaining-digits-are-literals");
            kani::assert(v.has_back_references, "C19.escape.marks-program-as-having-back-references");
        }
        Err(e) => {
            kani::assert(matches!(want, EscWant::Reject | EscWant::BlockName), "C07.escape.valid-escape-rejected");
            kani::assert(matches!(e, slice_esc::Error::Syntax), "C05.escape.error-is-Syntax-not-Internal");
        }
    }
}

//@ harness: f_escape_xpath_n7
//@ props: C07 C19 C05
//@ tier: quick
//@ cost: 200
//@ slice: c07_escape
//@ bound: body of ReCompiler::escape (verbatim slice; class builders -> tags, String -> NameStr) in the XPath dialect on EVERY text backslash + up to 6 chars over all scalar values, inside/outside a class, 0..12 groups opened, any set of closed groups: accepted set, kind of result (char / which class, complemented or not / back-reference number by the longest-valid-number rule), cursor, Err(Syntax) otherwise; block names not decided
//@ encodes: ReCompiler::escape(slice)
std_stubs! { #[kani::unwind(10)] pub(crate) fn f_escape_xpath_n7() { f_escape::<7>(true) } }

//@ harness: f_escape_xsd_n7
//@ props: C17 C07 C05
//@ tier: quick
//@ cost: 200
//@ slice: c07_escape
//@ bound: body of ReCompiler::escape (verbatim slice) in the XSD dialect, same domain: as XPath except that backslash-dollar and backslash-digit are rejected everywhere (inside classes too)
//@ encodes: ReCompiler::escape(slice)
std_stubs! { #[kani::unwind(10)] pub(crate) fn f_escape_xsd_n7() { f_escape::<7>(false) } }

//@ harness: f_escape_xpath_n8
//@ props: C07 C19 C05
//@ tier: thorough
//@ cost: 900
//@ slice: c07_escape
//@ bound: body of ReCompiler::escape (verbatim slice), XPath dialect, EVERY text backslash + up to 7 chars over all scalar values
//@ encodes: ReCompiler::escape(slice)
std_stubs! { #[kani::unwind(11)] pub(crate) fn f_escape_xpath_n8() { f_escape::<8>(true) } }

// ---- ReCompiler::piece as a verbatim slice (C20, C02, C17, C01) --------------
// The terminal is abstract (an anchor, or a term of which only the static facts
// piece() consults are known); the oracle says which operator - up to
// behavioural equivalence - the quantified term has to become.
fn f_piece(xpath: bool) {
    use slice_piece::{Operation as Op, Term};
    let (t, len) = sym_arr::<3>();
    kani::assume(len >= 1);
    let tk: u8 = kani::any();
    kani::assume(tk < 3);
    let zls: u32 = kani::any();
    kani::assume(zls == 7 || zls == 1024 || zls == 1 || zls == 2 || zls == 0);
    let ml: Option<usize> = kani::any();
    if let Some(k) = ml {
        kani::assume(k <= 3);
        // a term of fixed non-zero length can never match the empty string
        kani::assume(k == 0 || zls == 1024);
    }
    let terminal = match tk {
        0 => Op::Term(Term { zls, ml }),
        1 => Op::Bol(slice_piece::Bol),
        _ => Op::Eol(slice_piece::Eol),
    };
    let bracket_ok: bool = kani::any();
    let bmin: usize = kani::any();
    let bmax: usize = kani::any();
    kani::assume(bmin <= bmax);
    // ---- reference ---------------------------------------------------------
    #[derive(Clone, Copy, PartialEq, Eq)]
    enum Want {
        Reject,
        Same,
        Nothing,
        Rep { min: usize, max: usize, greedy: bool }, // a repetition operator with these bounds
    }
    let q = if len > 1 { t[1] } else { 'x' };
    let quantified = len > 1 && (q == '?' || q == '*' || q == '+' || q == '{');
    let mut want = Want::Same;
    let mut want_idx = 1;
    let mut also_same = false; // a nullable term under `?`-like bounds is its own optional form
    let mut reluct = false;
    if quantified {
        let (min, max) = if q == '?' { (0, 1) } else if q == '*' { (0, usize::MAX) } else if q == '+' { (1, usize::MAX) } else { (bmin, bmax) };
        reluct = len > 2 && t[2] == '?';
        want_idx = if reluct { 3 } else { 2 };
        if q == '{' && !bracket_ok {
            want = Want::Reject;
        } else if reluct && !xpath {
            want = Want::Reject;
        } else if tk != 0 {
            // a quantified anchor: zero occurrences allowed -> no constraint at all, else the anchor
            want = if min == 0 { Want::Nothing } else { Want::Same };
        } else {
            let nullable = zls == 7;
            // r{n,m} for a term that can match empty anywhere == r{0,m}
            let mn = if nullable { 0 } else { min };
            if max == 0 {
                want = Want::Nothing;
            } else if mn == 1 && max == 1 {
                want = Want::Same;
            } else if ml == Some(0) {
                // only ever matches the empty string: one occurrence is as good as many
                want = if mn == 0 { Want::Nothing } else { Want::Same };
                // ... and if it matches the empty string everywhere it IS the empty regex
                also_same = nullable;
            } else {
                want = Want::Rep { min: mn, max, greedy: !reluct };
                also_same = nullable && max == 1;
            }
        }
    }
    kani::cover!(!xpath || matches!(want, Want::Rep { greedy: false, .. }), "reluctant repetition");
    kani::cover!(matches!(want, Want::Rep { min: 2, max: 5, greedy: true }), "greedy {2,5}");
    kani::cover!(want == Want::Reject && !xpath && reluct || xpath, "reluctant quantifier under XSD");
    kani::cover!(quantified && tk == 0 && zls == 7 && q == '{' && bracket_ok && bmax == 2, "bounded quantifier on a nullable term");
    kani::cover!(quantified && tk == 0 && ml == Some(0) && zls != 7 && q == '+', "plus on a zero-length, not always matching term");
    kani::cover!(quantified && tk != 0 && q == '+', "quantified anchor");
    let mut v = slice_piece::View {
        pattern: &t[..len],
        len,
        idx: 0,
        bracket_min: 0,
        bracket_max: 0,
        re_flags: slice_piece::Flags { lang: if xpath { slice_piece::Language::XPath } else { slice_piece::Language::XSD } },
        terminal,
        bracket_ok,
        bracket_answer: (bmin, bmax),
    };
    let fl = [0u32];
    match v.piece(&fl) {
        Err(e) => {
            kani::assert(want == Want::Reject, "C07.piece.valid-quantifier-rejected");
            kani::assert(matches!(e, slice_piece::Error::Syntax), "C05.piece.error-is-Syntax");
        }
        Ok(op) => {
            kani::assert(want != Want::Reject, "C17.piece.reluctant-quantifier-under-XSD-or-bad-bounds-must-be-rejected");
            kani::assert(want == Want::Reject || v.idx == want_idx, "C07.piece.cursor-after-quantifier");
            let ok = match (want, op) {
                (Want::Reject, _) => true, // already reported above
                (Want::Same, o) => o == terminal,
                (Want::Nothing, Op::Nothing(_)) => true,
                (Want::Nothing, o) => also_same && o == terminal,
                (Want::Rep { min, max, greedy }, Op::Repeat(r)) => r.min == min && r.max == max && r.greedy == greedy,
                (Want::Rep { min, max, greedy }, Op::GreedyFixed(g)) => {
                    greedy && g.min == min && g.max == max && matches!(ml, Some(k) if k > 0 && k == g.len)
                }
                (Want::Rep { min, max, greedy }, Op::ReluctantFixed(g)) => {
                    !greedy && g.min == min && g.max == max && matches!(ml, Some(k) if k == g.len)
                }
                (Want::Rep { .. }, o) => also_same && o == terminal,
            } || (
                // a reluctant repetition of a zero-length term may also stay a ReluctantFixed of length 0
                reluct && ml == Some(0) && tk == 0
                    && matches!(op, Op::ReluctantFixed(g) if g.len == 0 && g.max >= 1)
            );
            kani::assert(ok, "C20.piece.quantified-term-becomes-an-equivalent-operator (bounds, greediness, fixed/variable family)");
        }
    }
}

//@ harness: f_piece_xpath
//@ props: C20 C02 C01 C07
//@ tier: quick
//@ cost: 100
//@ slice: c20_piece
//@ bound: body of ReCompiler::piece (verbatim slice; sub-parsers and operator constructors abstracted) in the XPath dialect for EVERY abstract terminal (anchor, or term with nullability code in {anywhere, never, at-start, at-end, unknown} and match length in {variable, 0, 1..3}), every quantifier text of <= 2 chars after it over all scalar values, every {n,m} answer with n<=m over all usize: the operator built has the right bounds and greediness and belongs to an admissible family
//@ encodes: ReCompiler::piece(slice)
std_stubs! { #[kani::unwind(6)] pub(crate) fn f_piece_xpath() { f_piece(true) } }

//@ harness: f_piece_xsd
//@ props: C17 C20 C07
//@ tier: quick
//@ cost: 100
//@ slice: c20_piece
//@ bound: the same in the XSD dialect: additionally every reluctant quantifier is rejected with Err(Syntax)
//@ encodes: ReCompiler::piece(slice)
std_stubs! { #[kani::unwind(6)] pub(crate) fn f_piece_xsd() { f_piece(false) } }
