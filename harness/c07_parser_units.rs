// ===== Family F: compiler leaf units reachable on symbolic text =============
use crate::re_compiler::ReCompiler;

fn d1(c: char) -> Option<usize> {
    if c >= '0' && c <= '9' { Some((c as usize) - ('0' as usize)) } else { None }
}

//@ harness: f_bracket_pair
//@ props: C07 C05
//@ tier: quick
//@ cost: 300
//@ bound: ReCompiler::bracket on the text '{' a ',' b '}' for ALL scalar values a, b: Ok iff both are ASCII digits and a <= b, with (min,max)=(a,b) and the cursor after '}'; otherwise Err(Syntax), never Err(Internal)
//@ encodes: ReCompiler::bracket
std_stubs! {
    #[kani::unwind(6)]
    pub(crate) fn f_bracket_pair() {
        let a: char = kani::any();
        let b: char = kani::any();
        let mut rc = ReCompiler::new(vec!['{', a, ',', b, '}'], flags(""));
        let want = match (d1(a), d1(b)) {
            (Some(x), Some(y)) if x <= y => Some((x, y)),
            _ => None,
        };
        kani::cover!(want.is_some(), "valid {n,m}");
        kani::cover!(matches!((d1(a), d1(b)), (Some(x), Some(y)) if x > y), "reversed bounds");
        kani::cover!(d1(a).is_none(), "first bound is not a digit");
        match rc.verif_bracket() {
            Ok(()) => {
                kani::assert(want.is_some(), "C07.bracket.rejects-malformed-or-reversed-bounds");
                let (mn, mx) = rc.verif_bracket_bounds();
                kani::assert(matches!(want, Some((x, y)) if x == mn && y == mx), "C07.bracket.bounds-value");
                kani::assert(rc.verif_idx() == 5, "C07.bracket.cursor-after-brace");
            }
            Err(e) => {
                kani::assert(want.is_none(), "C07.bracket.accepts-valid-bounds");
                kani::assert(matches!(e, Error::Syntax(_)), "C05.bracket.error-is-Syntax-not-Internal");
                std::mem::forget(e);
            }
        }
        std::mem::forget(rc);
    }
}

//@ harness: f_bracket_single
//@ props: C07 C05
//@ tier: quick
//@ cost: 300
//@ bound: ReCompiler::bracket on the texts '{' a '}' and '{' a ',' '}' for ALL scalar values a: Ok iff a is an ASCII digit, with (a,a) resp. (a,unbounded); otherwise Err(Syntax)
//@ encodes: ReCompiler::bracket
std_stubs! {
    #[kani::unwind(6)]
    pub(crate) fn f_bracket_single() {
        let a: char = kani::any();
        let open_ended: bool = kani::any();
        let pat = if open_ended { vec!['{', a, ',', '}'] } else { vec!['{', a, '}'] };
        let mut rc = ReCompiler::new(pat, flags(""));
        let want = d1(a);
        kani::cover!(want.is_some() && open_ended, "valid {n,}");
        kani::cover!(want.is_some() && !open_ended, "valid {n}");
        kani::cover!(want.is_none(), "not a digit");
        match rc.verif_bracket() {
            Ok(()) => {
                let (mn, mx) = rc.verif_bracket_bounds();
                kani::assert(matches!(want, Some(x) if x == mn), "C07.bracket.single.min");
                kani::assert(mx == if open_ended { usize::MAX } else { mn }, "C07.bracket.single.max");
                kani::assert(rc.verif_idx() == if open_ended { 4 } else { 3 }, "C07.bracket.single.cursor");
            }
            Err(e) => {
                kani::assert(want.is_none(), "C07.bracket.single.accepts-valid");
                kani::assert(matches!(e, Error::Syntax(_)), "C05.bracket.single.error-is-Syntax");
                std::mem::forget(e);
            }
        }
        std::mem::forget(rc);
    }
}

// ---- first-character set of a literal (the soundness condition of the
//      "following term is disjoint" rewrite): must contain every character the
//      literal's first character can match -----------------------------------
fn f_firstset(c: char) {
    let a = Atom::new(vec![c, 'z']);
    let x: char = kani::any();
    kani::cover!(x != c && model_eq_ci(x, c) || c == '1', "a case counterpart other than the character itself");
    kani::cover!(x == c, "the character itself");
    let cb = a.get_initial_character_class(true);
    kani::assert(!model_eq_ci(x, c) || cb.contains(x), "C11.first-set.case-blind-contains-every-matching-char");
    let cs = a.get_initial_character_class(false);
    kani::assert(cs.contains(x) == (x == c), "C08.first-set.case-sensitive-is-exactly-the-char");
    std::mem::forget(cb);
    std::mem::forget(cs);
    std::mem::forget(a);
}

//@ harness: f_firstset_letter
//@ props: C11 C08
//@ tier: quick
//@ cost: 300
//@ bound: Atom['k','z'].get_initial_character_class(case_blind) (real ICU case closure + inversion-list builder on a concrete literal) queried with EVERY scalar value x: contains x whenever x is 'k' or its case counterpart; exactly {'k'} when not case-blind
//@ encodes: Atom::get_initial_character_class CharacterClass::contains
icu_stubs! { #[kani::unwind(12)] pub(crate) fn f_firstset_letter() { f_firstset('k') } }

//@ harness: f_firstset_caseless
//@ props: C11 C08
//@ tier: quick
//@ cost: 300
//@ bound: Atom['1','z'].get_initial_character_class(case_blind) queried with EVERY scalar value x: contains '1' (a character without case variants); exactly {'1'} when not case-blind
//@ encodes: Atom::get_initial_character_class CharacterClass::contains
icu_stubs! { #[kani::unwind(12)] pub(crate) fn f_firstset_caseless() { f_firstset('1') } }

// ---- CharacterClass::is_disjoint: "may not give false positives" -------------
//@ harness: f_is_disjoint_sound
//@ props: C08
//@ tier: quick
//@ cost: 600
//@ bound: CharacterClass{x}.is_disjoint(CharacterClass[lo,hi)) for ALL scalar values x and ALL ranges lo<hi (static inversion lists): a `true` answer implies x is not in [lo,hi); ranges longer than the 100-character scan threshold included
//@ encodes: CharacterClass::is_disjoint CharacterClass::contains
std_stubs! {
    #[kani::unwind(105)]
    pub(crate) fn f_is_disjoint_sound() {
        let x: char = kani::any();
        let lo: u32 = kani::any();
        let hi: u32 = kani::any();
        kani::assume(lo < hi && hi <= 0xD800);
        let me = static_class(&[x as u32, x as u32 + 1]);
        let other = static_class(&[lo, hi]);
        let really_disjoint = !((x as u32) >= lo && (x as u32) < hi);
        kani::cover!(!really_disjoint && (x as u32) > lo + 150, "overlap only beyond the scan threshold");
        kani::cover!(really_disjoint && hi - lo < 50, "short disjoint range");
        let d = me.is_disjoint(&other);
        kani::assert(!d || really_disjoint, "C08.is-disjoint.no-false-positive");
        kani::assert(d || !really_disjoint || hi - lo > 100, "C08.is-disjoint.short-disjoint-ranges-recognised");
        std::mem::forget(me);
        std::mem::forget(other);
    }
}
