// Harness prelude: compiled INSIDE the regexml crate as `crate::verif_kani`
// (cfg(kani) only).  Everything here is environment, not code under test.
#![allow(unused, dead_code, clippy::all)]

use crate::analyze_string::AnalyzeIter;
use crate::character_class::CharacterClass;
use crate::op_atom::Atom;
use crate::op_back_reference::BackReference;
use crate::op_bol::Bol;
use crate::op_capture::Capture;
use crate::op_character_class::CharClass;
use crate::op_end_program::EndProgram;
use crate::op_eol::Eol;
use crate::op_greedy_fixed::GreedyFixed;
use crate::op_nothing::Nothing;
use crate::op_reluctant_fixed::ReluctantFixed;
use crate::op_repeat::Repeat;
use crate::op_unambiguous_repeat::UnambiguousRepeat;
use crate::operation::{ForceProgressIterator, Operation, OperationControl};
use crate::re_flags::{Language, ReFlags};
use crate::re_matcher::{CaptureState, ReMatcher};
use crate::re_program::{ReProgram, OPT_HASBACKREFS, OPT_HASBOL};
use crate::Error;

/// Standard stub set of every harness (see evidence `stubs`).
macro_rules! std_stubs {
    ($(#[$m:meta])* $v:vis fn $name:ident() $body:block) => {
        #[kani::proof]
        #[kani::stub(alloc::fmt::format, stub_format)]
        #[kani::stub(alloc::alloc::Global::deallocate_impl_runtime, stub_dealloc)]
        #[kani::stub(ahash::RandomState::new, stub_random_state)]
        #[kani::stub(icu_casemap::CaseMapper::simple_lowercase, stub_simple_lowercase)]
        $(#[$m])*
        $v fn $name() $body
    };
}
/// For the no_ambiguity harnesses: the disjointness test itself is environment
/// (an arbitrary answer), because inversion lists that went through the ICU
/// builder are symbolic to CBMC (P18); its soundness is f_is_disjoint_sound's subject.
pub fn stub_is_disjoint(_a: &CharacterClass, _b: &CharacterClass) -> bool {
    kani::any()
}
macro_rules! nodisjoint_stubs {
    ($(#[$m:meta])* $v:vis fn $name:ident() $body:block) => {
        #[kani::proof]
        #[kani::stub(alloc::fmt::format, stub_format)]
        #[kani::stub(alloc::alloc::Global::deallocate_impl_runtime, stub_dealloc)]
        #[kani::stub(ahash::RandomState::new, stub_random_state)]
        #[kani::stub(crate::character_class::CharacterClass::is_disjoint, stub_is_disjoint)]
        $(#[$m])*
        $v fn $name() $body
    };
}
/// Same, but with the REAL ICU case mapping (c11_icu_* harnesses).
macro_rules! icu_stubs {
    ($(#[$m:meta])* $v:vis fn $name:ident() $body:block) => {
        #[kani::proof]
        #[kani::stub(alloc::fmt::format, stub_format)]
        #[kani::stub(alloc::alloc::Global::deallocate_impl_runtime, stub_dealloc)]
        #[kani::stub(ahash::RandomState::new, stub_random_state)]
        $(#[$m])*
        $v fn $name() $body
    };
}

// ---- stubs (listed in every evidence file) --------------------------------
/// `format!` builds error / debug messages only; message text is never the
/// subject of a harness.
pub fn stub_format(_args: std::fmt::Arguments<'_>) -> String {
    String::new()
}
/// Memory is never freed inside a harness (forgoes use-after-free detection in
/// safe code; removes CBMC's spurious `__rust_dealloc` size-mismatch cuts).
pub fn stub_dealloc(_ptr: std::ptr::NonNull<u8>, _layout: std::alloc::Layout) {}
/// Hash seeds: ahash asks the OS (`getrandom` -> FFI).  Fixed seeds instead.
pub fn stub_random_state() -> ahash::RandomState {
    unsafe { std::mem::transmute::<[u64; 4], ahash::RandomState>([1, 2, 3, 4]) }
}

/// Arithmetic model of `CaseMapper::simple_lowercase`, used by every harness
/// whose subject is how the mapping is USED (search loop, Atom, BackReference):
/// the ICU trie lookup with a symbolic index costs about a minute of solver
/// time per call.  The c11_icu_* harnesses tie the model to the real ICU data
/// on the ranges it covers.
pub fn stub_simple_lowercase(_cm: &icu_casemap::CaseMapper, c: char) -> char {
    model_lower(c)
}
pub(crate) fn model_lower(c: char) -> char {
    let u = c as u32;
    let l = if u >= 0x41 && u <= 0x5A {
        u + 32 // ASCII
    } else if u >= 0xC0 && u <= 0xDE && u != 0xD7 {
        u + 32 // Latin-1
    } else if u >= 0x391 && u <= 0x3A9 && u != 0x3A2 {
        u + 32 // Greek
    } else if u >= 0x410 && u <= 0x42F {
        u + 32 // Cyrillic
    } else if u >= 0x400 && u <= 0x40F {
        u + 80 // Cyrillic
    } else if u >= 0x10400 && u <= 0x10427 {
        u + 40 // Deseret
    } else {
        u
    };
    match char::from_u32(l) {
        Some(x) => x,
        None => c,
    }
}
pub(crate) fn model_eq_ci(a: char, b: char) -> bool {
    a == b || model_lower(a) == model_lower(b)
}

// ---- helpers ---------------------------------------------------------------
pub(crate) fn flags(s: &'static str) -> ReFlags {
    match ReFlags::new(s, Language::XPath) {
        Ok(f) => f,
        Err(_) => {
            kani::assume(false);
            unreachable!()
        }
    }
}

/// A bare program: `operation` is the single operator under test; the
/// compile-time shortcut fields are set explicitly by the caller.
pub(crate) fn bare(op: Operation, fl: ReFlags) -> ReProgram {
    ReProgram {
        pattern: Vec::new(),
        operation: op,
        flags: fl,
        prefix: None,
        initial_char_class: None,
        preconditions: Vec::new(),
        minimum_length: 0,
        optimization_flags: 0,
        max_parens: Some(1),
        backtracking_limit: None,
    }
}

/// Symbolic haystack of at most N chars, every char unconstrained.
pub(crate) fn sym_input<const N: usize>() -> (Vec<char>, usize) {
    let len: usize = kani::any();
    kani::assume(len <= N);
    let mut v = Vec::with_capacity(N);
    let mut i = 0;
    while i < N {
        if i < len {
            let c: char = kani::any();
            v.push(c);
        }
        i += 1;
    }
    (v, len)
}

/// Symbolic text of at most N chars held in a stack array (cheaper for CBMC
/// than a heap Vec when the code under test indexes it symbolically).
pub(crate) fn sym_arr<const N: usize>() -> ([char; N], usize) {
    let len: usize = kani::any();
    kani::assume(len <= N);
    let mut a = ['\0'; N];
    let mut i = 0;
    while i < N {
        let c: char = kani::any();
        a[i] = c;
        i += 1;
    }
    (a, len)
}

/// Symbolic haystack restricted to ASCII.
pub(crate) fn sym_input_ascii<const N: usize>() -> (Vec<char>, usize) {
    let len: usize = kani::any();
    kani::assume(len <= N);
    let mut v = Vec::with_capacity(N);
    let mut i = 0;
    while i < N {
        if i < len {
            let c: char = kani::any();
            kani::assume((c as u32) < 128);
            v.push(c);
        }
        i += 1;
    }
    (v, len)
}

pub(crate) fn opt_eq(a: Option<usize>, b: Option<usize>) -> bool {
    match (a, b) {
        (None, None) => true,
        (Some(x), Some(y)) => x == y,
        _ => false,
    }
}

// ---- search-loop comparison ---------------------------------------------
pub(crate) struct SearchCmp {
    pub found_ok: bool,
    pub start_ok: bool,
    pub end_ok: bool,
}

/// Run the real `ReMatcher::matches(start)` and compare with the expected
/// (match start, match end) pair computed by a closed-form oracle.
pub(crate) fn compare_search(m: &mut ReMatcher, start: usize, want: Option<(usize, usize)>) -> SearchCmp {
    let got = m.matches(start);
    match want {
        None => SearchCmp { found_ok: !got, start_ok: true, end_ok: true },
        Some((s, e)) => SearchCmp {
            found_ok: got,
            start_ok: !got || opt_eq(m.get_paren_start(0), Some(s)),
            end_ok: !got || opt_eq(m.get_paren_end(0), Some(e)),
        },
    }
}

/// Leftmost oracle: first j in start..=len for which `at(j)` gives an end.
pub(crate) fn leftmost<const N: usize, F: Fn(usize) -> Option<usize>>(
    start: usize,
    len: usize,
    at: F,
) -> Option<(usize, usize)> {
    let mut want: Option<(usize, usize)> = None;
    let mut j = 0;
    while j <= N {
        if j >= start && j <= len && want.is_none() {
            if let Some(e) = at(j) {
                want = Some((j, e));
            }
        }
        j += 1;
    }
    want
}

/// Number of consecutive chars equal to `c` starting at `j` (at most N).
pub(crate) fn run_of<const N: usize>(v: &[char], len: usize, j: usize, c: char) -> usize {
    let mut r = 0;
    let mut k = 0;
    while k < N {
        if j + k < len && r == k && v[j + k] == c {
            r += 1;
        }
        k += 1;
    }
    r
}

pub(crate) fn umin(a: usize, b: usize) -> usize {
    if a < b { a } else { b }
}

/// ASCII simple-case equality, written arithmetically (independent of ICU).
pub(crate) fn ascii_eq_ci(a: char, b: char) -> bool {
    let la = if a >= 'A' && a <= 'Z' { ((a as u8) + 32) as char } else { a };
    let lb = if b >= 'A' && b <= 'Z' { ((b as u8) + 32) as char } else { b };
    la == lb
}

/// A character class from a static inversion list (not through the ICU builder).
pub(crate) fn static_class(list: &[u32]) -> CharacterClass {
    match icu_collections::codepointinvlist::CodePointInversionList::try_clone_from_inversion_list_slice(list) {
        Ok(l) => CharacterClass::new(l),
        Err(_) => {
            kani::assume(false);
            unreachable!()
        }
    }
}
