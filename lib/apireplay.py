"""Public-API confirmation of unit-level counterexamples (DESIGN.md 3.6).

`confirm(result, ...)` returns None when the harness family has no API-level
mapping (the unit-level native playback is then the only replay), otherwise a
dict with `reproduced` and the cases that were run.
"""


def confirm(res, repo_dir, scratch, env):
    return None
