"""Public-API confirmation of unit-level counterexamples (DESIGN.md 3.6).

`confirm(result, ...)` returns None when the harness family has no API-level
mapping (the unit-level native playback is then the only replay), otherwise a
dict {reproduced, cases:[...]}: the witness values of the failed harness are
turned into calls of the public API (Regex::xpath / xsd, is_match, replace_all,
analyze), run natively in a tiny crate with a path dependency on the scratch
copy of the repository, each call in its own process under a watchdog, and the
outcome is compared with an expectation computed here, in Python, from the
property statement.
"""
import os
import re
import subprocess

MAIN_RS = r'''
use regexml::Regex;
fn unhex(s: &str) -> String {
    let mut out = String::new();
    for part in s.split(',') { if part.is_empty() { continue; }
        if let Some(c) = u32::from_str_radix(part, 16).ok().and_then(char::from_u32) { out.push(c); } }
    out
}
fn hex(s: &str) -> String { s.chars().map(|c| format!("{:x}", c as u32)).collect::<Vec<_>>().join(",") }
fn kind(e: &regexml::Error) -> &'static str {
    match e { regexml::Error::Internal => "Internal", regexml::Error::InvalidFlags(_) => "InvalidFlags",
        regexml::Error::Syntax(_) => "Syntax", regexml::Error::MatchesEmptyString => "MatchesEmptyString",
        regexml::Error::InvalidReplacementString(_) => "InvalidReplacementString" }
}
fn main() {
    let a: Vec<String> = std::env::args().collect();
    let (op, dialect) = (a[1].as_str(), a[2].as_str());
    let (p, f, s, r) = (unhex(&a[3]), unhex(&a[4]), unhex(&a[5]), unhex(&a[6]));
    let re = if dialect == "xsd" { Regex::xsd(&p, &f) } else { Regex::xpath(&p, &f) };
    let re = match re { Ok(re) => re, Err(e) => { println!("RESULT compile-err:{}", kind(&e)); return; } };
    match op {
        "compile" => println!("RESULT ok"),
        "is_match" => println!("RESULT {}", re.is_match(&s)),
        "is_match_many" => {
            // a[5] holds several hex strings separated by ';'
            let bits: String = a[5].split(';').map(|h| if re.is_match(&unhex(h)) { '1' } else { '0' }).collect();
            println!("RESULT {}", bits)
        }
        "replace_all" => match re.replace_all(&s, &r) { Ok(o) => println!("RESULT ok:{}", hex(&o)), Err(e) => println!("RESULT err:{}", kind(&e)) },
        "analyze" => match re.analyze(&s) { Ok(it) => println!("RESULT ok:{}", it.count()), Err(e) => println!("RESULT err:{}", kind(&e)) },
        _ => println!("RESULT ?"),
    }
}
'''


def _u(v):
    return int.from_bytes(bytes(v), "little")


def _ch(v):
    cp = _u(v)
    try:
        return chr(cp)
    except ValueError:
        return "�"


def _hex(s):
    return ",".join("%x" % ord(c) for c in s)


class Native:
    def __init__(self, repo_dir, scratch, env):
        self.dir = os.path.join(scratch, "apireplay")
        os.makedirs(os.path.join(self.dir, "src"), exist_ok=True)
        open(os.path.join(self.dir, "Cargo.toml"), "w").write(
            '[package]\nname = "apireplay"\nversion = "0.0.0"\nedition = "2021"\n[dependencies]\n'
            'regexml = { path = "%s/regexml" }\n[workspace]\n' % repo_dir)
        open(os.path.join(self.dir, "src/main.rs"), "w").write(MAIN_RS)
        lock = os.path.join(repo_dir, "Cargo.lock")
        if os.path.exists(lock):
            import shutil
            shutil.copy(lock, os.path.join(self.dir, "Cargo.lock"))
        self.env = dict(env)
        self.env["CARGO_TARGET_DIR"] = os.path.join(scratch, "apireplay-target")
        r = subprocess.run(["cargo", "build", "--offline"], cwd=self.dir, env=self.env, text=True,
                           stdout=subprocess.PIPE, stderr=subprocess.STDOUT)
        self.ok = r.returncode == 0
        self.build_log = r.stdout[-1500:]
        self.bin = os.path.join(self.env["CARGO_TARGET_DIR"], "debug", "apireplay")

    def run(self, op, dialect, pattern, flags="", inp="", repl=""):
        if isinstance(inp, (list, tuple)):
            inp_arg = ";".join(_hex(x) for x in inp)
        else:
            inp_arg = _hex(inp)
        try:
            r = subprocess.run([self.bin, op, dialect, _hex(pattern), _hex(flags), inp_arg, _hex(repl)],
                               text=True, stdout=subprocess.PIPE, stderr=subprocess.STDOUT, timeout=20)
        except subprocess.TimeoutExpired:
            return "HANG"
        m = re.search(r"^RESULT (.*)$", r.stdout, re.M)
        if m:
            return m.group(1)
        if "panicked at" in r.stdout:
            pm = re.search(r"panicked at ([^\n]*)\n([^\n]*)", r.stdout)
            return "PANIC " + (pm.group(1) + " " + pm.group(2) if pm else "")
        return "?" + r.stdout[-200:]


# ---- reference semantics written from the property statements -------------
def model_lower(c):
    u = ord(c)
    if 0x41 <= u <= 0x5A or (0xC0 <= u <= 0xDE and u != 0xD7) or (0x391 <= u <= 0x3A9 and u != 0x3A2) or 0x410 <= u <= 0x42F:
        return chr(u + 32)
    if 0x400 <= u <= 0x40F:
        return chr(u + 80)
    if 0x10400 <= u <= 0x10427:
        return chr(u + 40)
    return c


def in_model(c):
    u = ord(c)
    return u < 0x80 or (0xC0 <= u <= 0xFE and u not in (0xD7, 0xF7, 0xDF)) or (0x391 <= u <= 0x3C9 and u not in (0x3A2, 0x3C2)) \
        or 0x400 <= u <= 0x45F or 0x10400 <= u <= 0x1044F


def ref_strip(p):
    out, esc, depth = [], False, 0
    for c in p:
        if c in "\t\n\r " and depth == 0:
            continue
        out.append(c)
        if esc:
            esc = False
        elif c == "\\":
            esc = True
        elif c == "[":
            depth += 1
        elif c == "]":
            depth -= 1
    return "".join(out)


def ref_expand(repl, groups):
    """groups: list of str-or-None, index 0 = whole match.  Returns str or None (invalid)."""
    n_groups = len(groups) - 1
    out, i = [], 0
    while i < len(repl):
        ch = repl[i]
        if ch == "\\":
            if i + 1 < len(repl) and repl[i + 1] in "\\$":
                out.append(repl[i + 1])
                i += 2
            else:
                return None
        elif ch == "$":
            if i + 1 < len(repl) and repl[i + 1] in "0123456789":
                n = int(repl[i + 1])
                i += 2
                if n_groups > 9:
                    while i < len(repl) and repl[i] in "0123456789" and n * 10 + int(repl[i]) <= n_groups:
                        n = n * 10 + int(repl[i])
                        i += 1
                if n <= n_groups and groups[n] is not None:
                    out.append(groups[n])
            else:
                return None
        else:
            out.append(ch)
            i += 1
    return "".join(out)


META = set("\\|.-^?*+{}()[]$")


def lit(c):
    return ("\\" + c) if c in META else c


def ref_bracket(t):
    m = re.fullmatch(r"\{([0-9]+)(?:(,)([0-9]*))?\}", t, re.A)
    if not m:
        return False
    if m.group(2) and m.group(3):
        return int(m.group(1)) <= int(m.group(3))
    return True


# ---- per-family case builders ------------------------------------------------
def _sym_arr(vals, k, n):
    """sym_arr: len (8 bytes) then n chars."""
    ln = _u(vals[k])
    chars = [_ch(v) for v in vals[k + 1:k + 1 + n]]
    return "".join(chars[:ln]), k + 1 + n


def _sym_input(vals, k):
    """sym_input: len (8 bytes) then exactly len chars."""
    ln = _u(vals[k])
    chars = [_ch(v) for v in vals[k + 1:k + 1 + ln]]
    return "".join(chars), k + 1 + ln


def confirm(res, repo_dir, scratch, env):
    name = res.h.name
    vals = (res.replay or {}).get("concrete_vals") or []
    if not vals or not isinstance(vals[0], list):
        return None
    try:
        cases = build_cases(name, vals)
    except Exception as e:  # malformed witness: no API-level statement
        return {"reproduced": False, "note": "could not decode witness: %r" % (e,)}
    if cases is None:
        return None
    nat = Native(repo_dir, scratch, env)
    if not nat.ok:
        return {"reproduced": False, "note": "native replay crate did not build: " + nat.build_log}
    out = []
    reproduced = False
    for c in cases:
        got = nat.run(c["op"], c.get("dialect", "xpath"), c["pattern"], c.get("flags", ""), c.get("input", ""),
                      c.get("replacement", ""))
        if "mirror" in c:
            # the statement equates this call with the same call on another spelling
            c["expect"] = nat.run(c["op"], c.get("dialect", "xpath"), c["mirror"], c.get("mirror_flags", ""),
                                  c.get("input", ""), c.get("replacement", ""))
            if c.get("mirror_negated") and c["expect"] in ("true", "false"):
                c["expect"] = "false" if c["expect"] == "true" else "true"
        bad = got.startswith("PANIC") or got == "HANG" or (c.get("expect") is not None and got != c["expect"]) \
            or (c.get("expect_not") is not None and got.startswith(c["expect_not"]))
        rec = {k: c[k] for k in ("op", "pattern", "flags", "input", "replacement", "expect", "mirror") if k in c}
        if isinstance(rec.get("input"), list):
            n = len(rec["input"])
            diff = [rec["input"][i] for i in range(min(n, len(got), len(rec.get("expect") or "")))
                    if got[i] != rec["expect"][i]] if isinstance(rec.get("expect"), str) else []
            rec["input"] = "%d inputs over the pattern's characters; differing on: %r" % (n, diff[:5])
        rec["got"] = got
        rec["violates_statement"] = bool(bad)
        out.append(rec)
        reproduced = reproduced or bad
    return {"reproduced": reproduced, "cases": out,
            "note": "expectations computed in Python from the property statement"}


def build_cases(name, vals):
    if name.startswith("e_flags_"):
        n = int(name[-1])
        ln = _u(vals[0])
        f = "".join(chr(_u(v)) for v in vals[1:1 + n])[:ln]
        xsd = "_xsd_" in name
        ok = re.fullmatch(r"[smixq]*(;[gkK]*)?" if not xsd else r"[smix]*(;[gkK]*)?", f) is not None
        exp = None
        if not ok:
            exp = "compile-err:InvalidFlags"
        return [{"op": "compile", "dialect": "xsd" if xsd else "xpath", "pattern": "a", "flags": f, "expect": exp,
                 "expect_not": None if not ok else "compile-err:InvalidFlags"}]
    if name.startswith("s_nesting_total_"):
        n = int(name.rsplit("n", 1)[1])
        p, _ = _sym_arr(vals, 0, n)
        if not p:
            return None
        return [{"op": "analyze", "pattern": p, "flags": "q", "input": "x" + p + "y" + p}]
    if name.startswith("s_strip_"):
        n = int(name.rsplit("n", 1)[1])
        p, _ = _sym_arr(vals, 0, n)
        s = ref_strip(p)
        # every input of <= 3 chars over the characters of the pattern (metacharacters excluded) plus 'a'
        import itertools
        alpha = sorted({c for c in p if c not in "\\[]"} | {"a", "]", "["})[:7]
        inputs = [""]
        for k in (1, 2, 3):
            inputs += ["".join(t) for t in itertools.product(alpha, repeat=k)]
        return [{"op": "is_match_many", "pattern": p, "flags": "x", "input": inputs, "mirror": s}]
    if name.startswith("f_bracket_"):
        n = int(name.rsplit("n", 1)[1])
        t, _ = _sym_arr(vals, 0, n)
        cases = []
        for operand in ("a", "(b*)", "(?:a|bc)"):
            ok = ref_bracket(t)
            cases.append({"op": "compile", "pattern": operand + t,
                          "expect": None if ok else "compile-err:Syntax",
                          "expect_not": "compile-err" if ok else None})
        return cases
    if name.startswith("a_atom1") or name.startswith("a_atom2"):
        k = 0
        nat = 1 if name.startswith("a_atom1") else 2
        atom = "".join(_ch(v) for v in vals[k:k + nat])
        k += nat
        inp, k = _sym_input(vals, k)
        ci = "_i_" in name or name.endswith("_i")
        if ci and not all(in_model(c) for c in atom + inp):
            return None
        f = "qi" if ci else "q"
        if ci:
            want = any(all(model_lower(inp[j + t]) == model_lower(atom[t]) or inp[j + t] == atom[t] for t in range(nat))
                       for j in range(len(inp) - nat + 1))
        else:
            want = atom in inp
        return [{"op": "is_match", "pattern": atom, "flags": f, "input": inp, "expect": "true" if want else "false"}]
    if name.startswith("s_expand_"):
        n = int(re.search(r"_n(\d)", name).group(1))
        literal = "literal" in name
        repl, k = _sym_arr(vals, 0, n)
        max_parens = _u(vals[k])
        k += 1
        present = [True] + [bool(_u(v)) for v in vals[k:k + 12]]
        k += 12
        text = [_ch(v) for v in vals[k:k + 13]]
        ng = max_parens - 1
        # a pattern with ng groups; present groups match one fixed letter, absent ones are optional and do not occur
        letters = "abcdefghijkl"
        pat, inp, groups = "", "", [None]
        for g in range(1, ng + 1):
            if present[g]:
                pat += "(" + letters[g - 1] + ")"
                inp += letters[g - 1]
                groups.append(letters[g - 1])
            else:
                pat += "(Z)?"
                groups.append(None)
        pat += "z"
        inp += "z"
        groups[0] = inp
        if literal:
            return [{"op": "replace_all", "pattern": inp, "flags": "q", "input": inp + "-" + inp, "replacement": repl,
                     "expect": "ok:" + _hex(repl + "-" + repl)}]
        exp = ref_expand(repl, groups)
        return [{"op": "replace_all", "pattern": pat, "flags": "", "input": inp + "-" + inp, "replacement": repl,
                 "expect": ("ok:" + _hex(exp + "-" + exp)) if exp is not None else "err:InvalidReplacementString"}]
    if name.startswith("g_class_base"):
        ci = name.endswith("_i")
        x = _ch(vals[0])
        a = _ch(vals[7])
        b = _ch(vals[8])
        if ci and not all(in_model(c) for c in (x, a, b)):
            return None
        eq = (lambda p, q: p == q or model_lower(p) == model_lower(q)) if ci else (lambda p, q: p == q)
        f = "i" if ci else ""
        cases = [
            {"op": "is_match", "pattern": "[" + a + "]", "flags": f, "input": x, "expect": "true" if eq(x, a) else "false"},
            {"op": "is_match", "pattern": "[" + a + b + "]", "flags": f, "input": x,
             "expect": "true" if (eq(x, a) or eq(x, b)) else "false"},
        ]
        if a <= b:
            rng = [chr(c) for c in range(ord(a), ord(b) + 1)]
            cases.append({"op": "is_match", "pattern": "[" + a + "-" + b + "]", "flags": f, "input": x,
                          "expect": "true" if any(eq(x, c) for c in rng) else "false"})
        else:
            cases.append({"op": "compile", "pattern": "[" + a + "-" + b + "]", "flags": f, "expect": "compile-err:Syntax"})
        return cases
    if name == "g_class_negation_law":
        x = _ch(vals[0])
        g, _ = _sym_arr(vals, 7, 3)
        # [G] and [^G] must disagree on the probe whenever both compile
        return [{"op": "is_match", "pattern": "[^" + g + "]", "flags": "", "input": x, "mirror": "[" + g + "]",
                 "mirror_negated": True}]
    return None
