"""Verbatim source slices (DESIGN.md section 3.3).

Two kernels are statement blocks inside functions that cannot run under Kani
as a whole.  Their text is extracted from the CURRENT source on every run,
anchored on the header of the enclosing `if` and brace matching (never on line
numbers), and pasted unchanged into a generated function whose free names are
bound to small stand-ins (`BVec`, a `self` view).
"""
import os
import re


class CannotEncode(Exception):
    pass


def _match_brace(src, j, what):
    """src[j-1] is an opening brace; return the index of its matching `}`."""
    assert src[j - 1] == "{"
    depth = 1
    k = j
    while k < len(src):
        c = src[k]
        if c == "'":
            m = re.match(r"'(\\.|[^\\'])'", src[k:])
            if m:
                k += m.end()
                continue
        if c == '"':
            m = re.match(r'"(\\.|[^\\"])*"', src[k:])
            if m:
                k += m.end()
                continue
        if c == "/" and src[k:k + 2] == "//":
            k = src.find("\n", k)
            continue
        if c == "{":
            depth += 1
        elif c == "}":
            depth -= 1
            if depth == 0:
                return k
        k += 1
    raise CannotEncode("unbalanced braces after anchor for %s" % what)


def _block_after(src, header, what):
    """Return the text between the `{` that ends `header` and its matching `}`."""
    i = src.find(header)
    if i < 0:
        raise CannotEncode("anchor for %s not found: %r" % (what, header))
    if src.find(header, i + 1) >= 0:
        raise CannotEncode("anchor for %s is ambiguous: %r" % (what, header))
    j = i + len(header)
    assert src[j - 1] == "{"
    depth = 1
    k = j
    in_char = False
    while k < len(src):
        c = src[k]
        # skip char literals such as '{' or '\\' and string literals
        if c == "'":
            m = re.match(r"'(\\.|[^\\'])'", src[k:])
            if m:
                k += m.end()
                continue
        if c == '"':
            m = re.match(r'"(\\.|[^\\"])*"', src[k:])
            if m:
                k += m.end()
                continue
        if c == "/" and src[k:k + 2] == "//":
            k = src.find("\n", k)
            continue
        if c == "{":
            depth += 1
        elif c == "}":
            depth -= 1
            if depth == 0:
                return src[j:k], src.count("\n", 0, i) + 1
        k += 1
    raise CannotEncode("unbalanced braces after anchor for %s" % what)


STANDINS = r'''
// ---- stand-ins used only by the generated slices (environment, trusted) ----
#[derive(Clone, Copy)]
pub(crate) struct BVec<const N: usize> {
    pub a: [char; N],
    pub n: usize,
}
impl<const N: usize> BVec<N> {
    pub fn new() -> Self {
        BVec { a: ['\0'; N], n: 0 }
    }
    pub fn push(&mut self, c: char) {
        kani::assert(self.n < N, "standin BVec capacity exceeded");
        self.a[self.n] = c;
        self.n += 1;
    }
    pub fn len(&self) -> usize {
        self.n
    }
    pub fn is_empty(&self) -> bool {
        self.n == 0
    }
    pub fn extend(&mut self, s: &[char]) {
        let mut i = 0;
        while i < s.len() {
            self.push(s[i]);
            i += 1;
        }
    }
    pub fn iter(&self) -> std::slice::Iter<'_, char> {
        self.a[..self.n].iter()
    }
}

/// Small association list standing in for HashMap<usize, usize> inside slices.
#[derive(Clone, Copy)]
pub(crate) struct BMap {
    pub k: [usize; 8],
    pub v: [usize; 8],
    pub n: usize,
}
impl BMap {
    pub fn new() -> Self {
        BMap { k: [0; 8], v: [0; 8], n: 0 }
    }
    pub fn insert(&mut self, key: usize, val: usize) -> Option<usize> {
        let mut i = 0;
        while i < self.n {
            if self.k[i] == key {
                let old = self.v[i];
                self.v[i] = val;
                return Some(old);
            }
            i += 1;
        }
        kani::assert(self.n < 8, "standin BMap capacity exceeded");
        self.k[self.n] = key;
        self.v[self.n] = val;
        self.n += 1;
        None
    }
    pub fn get(&self, key: &usize) -> Option<&usize> {
        let mut i = 0;
        while i < self.n {
            if self.k[i] == *key {
                return Some(&self.v[i]);
            }
            i += 1;
        }
        None
    }
    pub fn len(&self) -> usize {
        self.n
    }
}

/// Fixed-capacity stand-in for `vec![x; n]` inside slices; an out-of-range
/// index is reported as a failure of the code under test.
#[derive(Clone, Copy)]
pub(crate) struct BArr<T: Copy> {
    pub a: [T; 8],
    pub n: usize,
}
impl<T: Copy> BArr<T> {
    pub fn filled(x: T, n: usize) -> Self {
        kani::assert(n <= 8, "standin BArr capacity exceeded");
        BArr { a: [x; 8], n }
    }
}
impl<T: Copy> std::ops::Index<usize> for BArr<T> {
    type Output = T;
    fn index(&self, i: usize) -> &T {
        kani::assert(i < self.n, "C05.slice.index out of bounds (stand-in for Vec indexing)");
        &self.a[i]
    }
}
impl<T: Copy> std::ops::IndexMut<usize> for BArr<T> {
    fn index_mut(&mut self, i: usize) -> &mut T {
        kani::assert(i < self.n, "C05.slice.index out of bounds (stand-in for Vec indexing)");
        &mut self.a[i]
    }
}

/// Stand-in for the `String` that ReCompiler::bracket collects digits into.
#[derive(Clone, Copy)]
pub(crate) struct BStr {
    pub a: [char; 8],
    pub n: usize,
}
impl BStr {
    pub fn new() -> Self {
        BStr { a: ['\0'; 8], n: 0 }
    }
    pub fn push(&mut self, c: char) {
        kani::assert(self.n < 8, "standin BStr capacity exceeded");
        self.a[self.n] = c;
        self.n += 1;
    }
    /// `str::parse::<usize>` for a string of ASCII digits (what bracket pushes):
    /// Err on an empty string, a non-digit, or overflow.
    pub fn parse<T>(&self) -> Result<usize, ()> {
        if self.n == 0 {
            return Err(());
        }
        let mut v: usize = 0;
        let mut i = 0;
        while i < self.n {
            let c = self.a[i];
            if !(c >= '0' && c <= '9') {
                return Err(());
            }
            v = match v.checked_mul(10) {
                Some(x) => x,
                None => return Err(()),
            };
            v = match v.checked_add((c as usize) - ('0' as usize)) {
                Some(x) => x,
                None => return Err(()),
            };
            i += 1;
        }
        Ok(v)
    }
}
'''


def generate(repo_dir):
    info = {"standins": ["BVec<N>: fixed-capacity array + length standing in for Vec<char> inside slices",
                         "slice_c14::View {pattern, len}: the two ReCompiler fields the stripper touches",
                         "slice_c15::View {program.max_parens, program.flags.is_literal(), get_paren(n)}: what the substitution step reads of ReMatcher", "slice_c15::{Error, Msg, format!, to_string}: error-message construction bound to a unit type (message text is never compared)"],
            "slices": {}}
    out = [STANDINS]

    # ---- C14: x-flag whitespace stripper inside ReCompiler::compile -------
    src = open(os.path.join(repo_dir, "regexml/src/re_compiler.rs"), encoding="utf-8").read()
    body, line = _block_after(src, "if self.re_flags.is_allow_whitespace() {", "x-flag stripper (C14)")
    if "self.pattern = sb" not in body.replace("\n", " "):
        raise CannotEncode("x-flag stripper block no longer assigns the stripped text to self.pattern")
    info["slices"]["c14_strip"] = {"file": "regexml/src/re_compiler.rs", "first_line": line,
                                   "lines": body.count("\n"), "anchor": "if self.re_flags.is_allow_whitespace() {"}
    out.append('''
pub(crate) mod slice_c14 {
    #![allow(unused)]
    use super::BVec;
    #[allow(non_camel_case_types)]
    type Vec = BVec<8>;
    pub(crate) struct View {
        pub pattern: BVec<8>,
        pub len: usize,
    }
    impl View {
        pub(crate) fn run(&mut self) {
            // ---- verbatim from re_compiler.rs (ReCompiler::compile) ----
%s
            // ---- end of verbatim block ----
        }
    }
}
''' % body)

    # ---- C15/C13: per-match substitution logic inside ReMatcher::replace ----
    src = open(os.path.join(repo_dir, "regexml/src/re_matcher.rs"), encoding="utf-8").read()
    ms = list(re.finditer(r"if first_match \{\s*simple_replacement\s*=", src))
    if len(ms) != 1:
        raise CannotEncode("anchor for replacement expansion (C15) not found exactly once: "
                           "`if first_match { simple_replacement = ...`")
    a = ms[0].start()
    e1 = _match_brace(src, src.index("{", a) + 1, "C15 latch block")
    m2 = re.match(r"\s*if !simple_replacement \{", src[e1 + 1:])
    if not m2:
        raise CannotEncode("`if !simple_replacement {` no longer follows the latch block in ReMatcher::replace")
    e2 = _match_brace(src, e1 + 1 + m2.end(), "C15 expansion block")
    m3 = re.match(r"\s*else \{", src[e2 + 1:])
    if not m3:
        raise CannotEncode("`else {` (verbatim substitution) no longer follows the expansion block")
    e3 = _match_brace(src, e2 + 1 + m3.end(), "C15 verbatim block")
    body = src[a:e3 + 1]
    info["slices"]["c15_expand"] = {"file": "regexml/src/re_matcher.rs", "first_line": src.count("\n", 0, a) + 1,
                                    "lines": body.count("\n") + 1,
                                    "anchor": "if first_match { simple_replacement = ... } if !simple_replacement { ... } else { ... }"}
    out.append('''
pub(crate) mod slice_c15 {
    // Error messages are environment: `format!` and `"..".to_string()` are bound
    // to a unit message type so that no String is built on the error paths.
    #![no_implicit_prelude]
    #![allow(unused)]
    use super::BVec;
    use ::core::option::Option::{self, None, Some};
    use ::core::result::Result::{self, Err, Ok};
    pub(crate) struct Msg;
    pub(crate) trait ToMsg {
        fn to_string(&self) -> Msg;
    }
    impl ToMsg for str {
        fn to_string(&self) -> Msg {
            Msg
        }
    }
    impl ToMsg for Msg {
        fn to_string(&self) -> Msg {
            Msg
        }
    }
    macro_rules! format {
        ($($t:tt)*) => {
            Msg
        };
    }
    pub(crate) enum Error {
        InvalidReplacementString(Msg),
    }
    pub(crate) struct Flags {
        pub literal: bool,
    }
    impl Flags {
        pub(crate) fn is_literal(&self) -> bool {
            self.literal
        }
    }
    pub(crate) struct Prog {
        pub max_parens: Option<usize>,
        pub flags: Flags,
    }
    pub(crate) struct View {
        pub program: Prog,
        pub present: [bool; 13],
        pub text: [char; 13],
    }
    impl View {
        pub(crate) fn get_paren(&self, group_nr: usize) -> Option<&[char]> {
            if group_nr < 13 && group_nr < self.program.max_parens.unwrap() && self.present[group_nr] {
                Some(&self.text[group_nr..group_nr + 1])
            } else {
                None
            }
        }
        /// The substitution step of `replace`, executed once per match for
        /// `n_matches` consecutive matches (the latch variables live across them).
        pub(crate) fn run(&self, replacement: &[char], n_matches: usize) -> Result<(BVec<8>, bool), Error> {
            let mut result: BVec<8> = BVec::new();
            let mut first_match = true;
            let mut simple_replacement = false;
            let mut k = 0;
            while k < n_matches {
                // ---- verbatim from re_matcher.rs (ReMatcher::replace) ----
%s
                // ---- end of verbatim block ----
                k += 1;
            }
            Ok((result, simple_replacement))
        }
    }
}
''' % body)

    # ---- C13/C05: AnalyzeIter::compute_nesting_table (whole body) -----------
    src = open(os.path.join(repo_dir, "regexml/src/analyze_string.rs"), encoding="utf-8").read()
    ms = list(re.finditer(r"fn compute_nesting_table\([^)]*\)\s*->\s*HashMap<usize, usize>\s*\{", src))
    if len(ms) != 1:
        raise CannotEncode("anchor for compute_nesting_table not found exactly once")
    b0 = ms[0].end()
    b1 = _match_brace(src, b0, "compute_nesting_table")
    body = src[b0:b1]
    info["slices"]["c13_nesting"] = {"file": "regexml/src/analyze_string.rs", "first_line": src.count("\n", 0, b0) + 1,
                                     "lines": body.count("\n") + 1, "anchor": "fn compute_nesting_table(..) -> HashMap<usize, usize> {"}
    info["standins"].append("BArr<T>: 8-slot array standing in for `vec![x; n]` in the nesting-table slice (out-of-range index = failure of the code under test)")
    info["standins"].append("BMap: 8-entry association list standing in for HashMap<usize, usize> in the nesting-table slice")
    out.append('''
pub(crate) mod slice_c13 {
    #![allow(unused)]
    use super::{BArr, BMap};
    #[allow(non_camel_case_types)]
    type HashMap = BMap;
    macro_rules! vec {
        ($e:expr; $n:expr) => {
            BArr::filled($e, $n)
        };
    }
    pub(crate) fn run(pattern: &[char]) -> BMap {
        // ---- verbatim body of AnalyzeIter::compute_nesting_table ----
%s
        // ---- end of verbatim block ----
    }
}
''' % body)
    # ---- C07: ReCompiler::bracket (whole body) --------------------------------
    src = open(os.path.join(repo_dir, "regexml/src/re_compiler.rs"), encoding="utf-8").read()
    ms = list(re.finditer(r"\n    fn bracket\(&mut self\)\s*->\s*Result<\(\), Error>\s*\{", src))
    if len(ms) != 1:
        raise CannotEncode("anchor for ReCompiler::bracket not found exactly once")
    b0 = ms[0].end()
    b1 = _match_brace(src, b0, "ReCompiler::bracket")
    body = src[b0:b1]
    info["slices"]["c07_bracket"] = {"file": "regexml/src/re_compiler.rs", "first_line": src.count("\n", 0, b0) + 1,
                                     "lines": body.count("\n") + 1, "anchor": "fn bracket(&mut self) -> Result<(), Error> {"}
    info["standins"].append("slice_c07::{View{pattern,len,idx,bracket_min,bracket_max}, String -> BStr (push, parse::<usize>), Error{Internal,Syntax}}: what ReCompiler::bracket touches")
    out.append('''
pub(crate) mod slice_c07 {
    #![allow(unused)]
    use super::{BArr, BStr};
    #[allow(non_camel_case_types)]
    type String = BStr;
    pub(crate) enum Error {
        Internal,
        Syntax,
    }
    impl Error {
        pub(crate) fn syntax<T>(_s: T) -> Error {
            Error::Syntax
        }
    }
    pub(crate) struct View {
        pub pattern: BArr<char>,
        pub len: usize,
        pub idx: usize,
        pub bracket_min: usize,
        pub bracket_max: usize,
    }
    impl View {
        pub(crate) fn bracket(&mut self) -> Result<(), Error> {
            // ---- verbatim body of ReCompiler::bracket ----
%s
            // ---- end of verbatim block ----
        }
    }
}
''' % body)
    return "\n".join(out), info
