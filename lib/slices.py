"""Verbatim source slices (DESIGN.md section 3.3).

Two kernels are statement blocks inside functions that cannot run under Kani
as a whole.  Their text is extracted from the CURRENT source on every run,
anchored on the header of the enclosing `if` and brace matching (never on line
numbers), and pasted unchanged into a generated function whose free names are
bound to small stand-ins (`BVec`, a `self` view).
"""
import os
import re


class CannotEncode(Exception):
    pass


def _match_brace(src, j, what):
    """src[j-1] is an opening brace; return the index of its matching `}`."""
    assert src[j - 1] == "{"
    depth = 1
    k = j
    while k < len(src):
        c = src[k]
        if c == "'":
            m = re.match(r"'(\\.|[^\\'])'", src[k:])
            if m:
                k += m.end()
                continue
        if c == '"':
            m = re.match(r'"(\\.|[^\\"])*"', src[k:])
            if m:
                k += m.end()
                continue
        if c == "/" and src[k:k + 2] == "//":
            k = src.find("\n", k)
            continue
        if c == "{":
            depth += 1
        elif c == "}":
            depth -= 1
            if depth == 0:
                return k
        k += 1
    raise CannotEncode("unbalanced braces after anchor for %s" % what)


def _block_after(src, header, what):
    """Return the text between the `{` that ends `header` and its matching `}`."""
    i = src.find(header)
    if i < 0:
        raise CannotEncode("anchor for %s not found: %r" % (what, header))
    if src.find(header, i + 1) >= 0:
        raise CannotEncode("anchor for %s is ambiguous: %r" % (what, header))
    j = i + len(header)
    assert src[j - 1] == "{"
    depth = 1
    k = j
    in_char = False
    while k < len(src):
        c = src[k]
        # skip char literals such as '{' or '\\' and string literals
        if c == "'":
            m = re.match(r"'(\\.|[^\\'])'", src[k:])
            if m:
                k += m.end()
                continue
        if c == '"':
            m = re.match(r'"(\\.|[^\\"])*"', src[k:])
            if m:
                k += m.end()
                continue
        if c == "/" and src[k:k + 2] == "//":
            k = src.find("\n", k)
            continue
        if c == "{":
            depth += 1
        elif c == "}":
            depth -= 1
            if depth == 0:
                return src[j:k], src.count("\n", 0, i) + 1
        k += 1
    raise CannotEncode("unbalanced braces after anchor for %s" % what)


STANDINS = r'''
// ---- stand-ins used only by the generated slices (environment, trusted) ----
#[derive(Clone, Copy)]
pub(crate) struct BVec<const N: usize> {
    pub a: [char; N],
    pub n: usize,
}
impl<const N: usize> BVec<N> {
    pub fn new() -> Self {
        BVec { a: ['\0'; N], n: 0 }
    }
    pub fn push(&mut self, c: char) {
        kani::assert(self.n < N, "standin BVec capacity exceeded");
        self.a[self.n] = c;
        self.n += 1;
    }
    pub fn len(&self) -> usize {
        self.n
    }
    pub fn is_empty(&self) -> bool {
        self.n == 0
    }
    pub fn extend(&mut self, s: &[char]) {
        let mut i = 0;
        while i < s.len() {
            self.push(s[i]);
            i += 1;
        }
    }
    pub fn iter(&self) -> std::slice::Iter<'_, char> {
        self.a[..self.n].iter()
    }
}

/// Small association list standing in for HashMap<usize, usize> inside slices.
#[derive(Clone, Copy)]
pub(crate) struct BMap {
    pub k: [usize; 8],
    pub v: [usize; 8],
    pub n: usize,
}
impl BMap {
    pub fn new() -> Self {
        BMap { k: [0; 8], v: [0; 8], n: 0 }
    }
    pub fn insert(&mut self, key: usize, val: usize) -> Option<usize> {
        let mut i = 0;
        while i < self.n {
            if self.k[i] == key {
                let old = self.v[i];
                self.v[i] = val;
                return Some(old);
            }
            i += 1;
        }
        kani::assert(self.n < 8, "standin BMap capacity exceeded");
        self.k[self.n] = key;
        self.v[self.n] = val;
        self.n += 1;
        None
    }
    pub fn get(&self, key: &usize) -> Option<&usize> {
        let mut i = 0;
        while i < self.n {
            if self.k[i] == *key {
                return Some(&self.v[i]);
            }
            i += 1;
        }
        None
    }
    pub fn len(&self) -> usize {
        self.n
    }
}

/// Fixed-capacity stand-in for `vec![x; n]` inside slices; an out-of-range
/// index is reported as a failure of the code under test.
#[derive(Clone, Copy)]
pub(crate) struct BArr<T: Copy> {
    pub a: [T; 8],
    pub n: usize,
}
impl<T: Copy> BArr<T> {
    pub fn filled(x: T, n: usize) -> Self {
        kani::assert(n <= 8, "standin BArr capacity exceeded");
        BArr { a: [x; 8], n }
    }
}
impl<T: Copy> std::ops::Index<usize> for BArr<T> {
    type Output = T;
    fn index(&self, i: usize) -> &T {
        kani::assert(i < self.n, "C05.slice.index out of bounds (stand-in for Vec indexing)");
        &self.a[i]
    }
}
impl<T: Copy> std::ops::IndexMut<usize> for BArr<T> {
    fn index_mut(&mut self, i: usize) -> &mut T {
        kani::assert(i < self.n, "C05.slice.index out of bounds (stand-in for Vec indexing)");
        &mut self.a[i]
    }
}

/// Stand-in for the `String` that ReCompiler::bracket collects digits into.
#[derive(Clone, Copy)]
pub(crate) struct BStr {
    pub a: [char; 8],
    pub n: usize,
}
impl BStr {
    pub fn new() -> Self {
        BStr { a: ['\0'; 8], n: 0 }
    }
    pub fn push(&mut self, c: char) {
        kani::assert(self.n < 8, "standin BStr capacity exceeded");
        self.a[self.n] = c;
        self.n += 1;
    }
    /// `str::parse::<usize>` for a string of ASCII digits (what bracket pushes):
    /// Err on an empty string, a non-digit, or overflow.
    pub fn parse<T>(&self) -> Result<usize, ()> {
        if self.n == 0 {
            return Err(());
        }
        let mut v: usize = 0;
        let mut i = 0;
        while i < self.n {
            let c = self.a[i];
            if !(c >= '0' && c <= '9') {
                return Err(());
            }
            v = match v.checked_mul(10) {
                Some(x) => x,
                None => return Err(()),
            };
            v = match v.checked_add((c as usize) - ('0' as usize)) {
                Some(x) => x,
                None => return Err(()),
            };
            i += 1;
        }
        Ok(v)
    }
}
'''


def generate(repo_dir):
    info = {"standins": ["BVec<N>: fixed-capacity array + length standing in for Vec<char> inside slices",
                         "slice_c14::View {pattern, len}: the two ReCompiler fields the stripper touches",
                         "slice_c15::View {program.max_parens, program.flags.is_literal(), get_paren(n)}: what the substitution step reads of ReMatcher", "slice_c15::{Error, Msg, format!, to_string}: error-message construction bound to a unit type (message text is never compared)"],
            "slices": {}}
    out = [STANDINS]

    # ---- C14: x-flag whitespace stripper inside ReCompiler::compile -------
    src = open(os.path.join(repo_dir, "regexml/src/re_compiler.rs"), encoding="utf-8").read()
    body, line = _block_after(src, "if self.re_flags.is_allow_whitespace() {", "x-flag stripper (C14)")
    if "self.pattern = sb" not in body.replace("\n", " "):
        raise CannotEncode("x-flag stripper block no longer assigns the stripped text to self.pattern")
    info["slices"]["c14_strip"] = {"file": "regexml/src/re_compiler.rs", "first_line": line,
                                   "lines": body.count("\n"), "anchor": "if self.re_flags.is_allow_whitespace() {"}
    out.append('''
pub(crate) mod slice_c14 {
    #![allow(unused)]
    use super::BVec;
    #[allow(non_camel_case_types)]
    type Vec = BVec<12>;
    pub(crate) struct View {
        pub pattern: BVec<12>,
        pub len: usize,
    }
    impl View {
        pub(crate) fn run(&mut self) {
            // ---- verbatim from re_compiler.rs (ReCompiler::compile) ----
%s
            // ---- end of verbatim block ----
        }
    }
}
''' % body)

    # ---- C15/C13: per-match substitution logic inside ReMatcher::replace ----
    src = open(os.path.join(repo_dir, "regexml/src/re_matcher.rs"), encoding="utf-8").read()
    ms = list(re.finditer(r"if first_match \{\s*simple_replacement\s*=", src))
    if len(ms) != 1:
        raise CannotEncode("anchor for replacement expansion (C15) not found exactly once: "
                           "`if first_match { simple_replacement = ...`")
    a = ms[0].start()
    e1 = _match_brace(src, src.index("{", a) + 1, "C15 latch block")
    m2 = re.match(r"\s*if !simple_replacement \{", src[e1 + 1:])
    if not m2:
        raise CannotEncode("`if !simple_replacement {` no longer follows the latch block in ReMatcher::replace")
    e2 = _match_brace(src, e1 + 1 + m2.end(), "C15 expansion block")
    m3 = re.match(r"\s*else \{", src[e2 + 1:])
    if not m3:
        raise CannotEncode("`else {` (verbatim substitution) no longer follows the expansion block")
    e3 = _match_brace(src, e2 + 1 + m3.end(), "C15 verbatim block")
    body = src[a:e3 + 1]
    info["slices"]["c15_expand"] = {"file": "regexml/src/re_matcher.rs", "first_line": src.count("\n", 0, a) + 1,
                                    "lines": body.count("\n") + 1,
                                    "anchor": "if first_match { simple_replacement = ... } if !simple_replacement { ... } else { ... }"}
    out.append('''
pub(crate) mod slice_c15 {
    // Error messages are environment: `format!` and `"..".to_string()` are bound
    // to a unit message type so that no String is built on the error paths.
    #![no_implicit_prelude]
    #![allow(unused)]
    use super::BVec;
    use ::core::option::Option::{self, None, Some};
    use ::core::result::Result::{self, Err, Ok};
    pub(crate) struct Msg;
    pub(crate) trait ToMsg {
        fn to_string(&self) -> Msg;
    }
    impl ToMsg for str {
        fn to_string(&self) -> Msg {
            Msg
        }
    }
    impl ToMsg for Msg {
        fn to_string(&self) -> Msg {
            Msg
        }
    }
    macro_rules! format {
        ($($t:tt)*) => {
            Msg
        };
    }
    pub(crate) enum Error {
        InvalidReplacementString(Msg),
    }
    pub(crate) struct Flags {
        pub literal: bool,
    }
    impl Flags {
        pub(crate) fn is_literal(&self) -> bool {
            self.literal
        }
    }
    pub(crate) struct Prog {
        pub max_parens: Option<usize>,
        pub flags: Flags,
    }
    pub(crate) struct View {
        pub program: Prog,
        pub present: [bool; 13],
        pub text: [char; 13],
    }
    impl View {
        pub(crate) fn get_paren(&self, group_nr: usize) -> Option<&[char]> {
            if group_nr < 13 && group_nr < self.program.max_parens.unwrap() && self.present[group_nr] {
                Some(&self.text[group_nr..group_nr + 1])
            } else {
                None
            }
        }
        /// The substitution step of `replace`, executed once per match for
        /// `n_matches` consecutive matches (the latch variables live across them).
        pub(crate) fn run(&self, replacement: &[char], n_matches: usize) -> Result<(BVec<8>, bool), Error> {
            let mut result: BVec<8> = BVec::new();
            let mut first_match = true;
            let mut simple_replacement = false;
            let mut k = 0;
            while k < n_matches {
                // ---- verbatim from re_matcher.rs (ReMatcher::replace) ----
%s
                // ---- end of verbatim block ----
                k += 1;
            }
            Ok((result, simple_replacement))
        }
    }
}
''' % body)

    # ---- C13/C05: AnalyzeIter::compute_nesting_table (whole body) -----------
    src = open(os.path.join(repo_dir, "regexml/src/analyze_string.rs"), encoding="utf-8").read()
    ms = list(re.finditer(r"fn compute_nesting_table\([^)]*\)\s*->\s*HashMap<usize, usize>\s*\{", src))
    if len(ms) != 1:
        raise CannotEncode("anchor for compute_nesting_table not found exactly once")
    b0 = ms[0].end()
    b1 = _match_brace(src, b0, "compute_nesting_table")
    body = src[b0:b1]
    info["slices"]["c13_nesting"] = {"file": "regexml/src/analyze_string.rs", "first_line": src.count("\n", 0, b0) + 1,
                                     "lines": body.count("\n") + 1, "anchor": "fn compute_nesting_table(..) -> HashMap<usize, usize> {"}
    info["standins"].append("BArr<T>: 8-slot array standing in for `vec![x; n]` in the nesting-table slice (out-of-range index = failure of the code under test)")
    info["standins"].append("BMap: 8-entry association list standing in for HashMap<usize, usize> in the nesting-table slice")
    out.append('''
pub(crate) mod slice_c13 {
    #![allow(unused)]
    use super::{BArr, BMap};
    #[allow(non_camel_case_types)]
    type HashMap = BMap;
    macro_rules! vec {
        ($e:expr; $n:expr) => {
            BArr::filled($e, $n)
        };
    }
    pub(crate) fn run(pattern: &[char]) -> BMap {
        // ---- verbatim body of AnalyzeIter::compute_nesting_table ----
%s
        // ---- end of verbatim block ----
    }
}
''' % body)
    # ---- C07: ReCompiler::bracket (whole body) --------------------------------
    src = open(os.path.join(repo_dir, "regexml/src/re_compiler.rs"), encoding="utf-8").read()
    ms = list(re.finditer(r"\n    fn bracket\(&mut self\)\s*->\s*Result<\(\), Error>\s*\{", src))
    if len(ms) != 1:
        raise CannotEncode("anchor for ReCompiler::bracket not found exactly once")
    b0 = ms[0].end()
    b1 = _match_brace(src, b0, "ReCompiler::bracket")
    body = src[b0:b1]
    info["slices"]["c07_bracket"] = {"file": "regexml/src/re_compiler.rs", "first_line": src.count("\n", 0, b0) + 1,
                                     "lines": body.count("\n") + 1, "anchor": "fn bracket(&mut self) -> Result<(), Error> {"}
    info["standins"].append("slice_c07::{View{pattern,len,idx,bracket_min,bracket_max}, String -> BStr (push, parse::<usize>), Error{Internal,Syntax}}: what ReCompiler::bracket touches")
    out.append('''
pub(crate) mod slice_c07 {
    #![allow(unused)]
    use super::{BArr, BStr};
    #[allow(non_camel_case_types)]
    type String = BStr;
    pub(crate) enum Error {
        Internal,
        Syntax,
    }
    impl Error {
        pub(crate) fn syntax<T>(_s: T) -> Error {
            Error::Syntax
        }
    }
    pub(crate) struct View {
        pub pattern: BArr<char>,
        pub len: usize,
        pub idx: usize,
        pub bracket_min: usize,
        pub bracket_max: usize,
    }
    impl View {
        pub(crate) fn bracket(&mut self) -> Result<(), Error> {
            // ---- verbatim body of ReCompiler::bracket ----
%s
            // ---- end of verbatim block ----
        }
    }
}
''' % body)
    # ---- C07/C17/C19: ReCompiler::escape (whole body) ---------------------------
    src = open(os.path.join(repo_dir, "regexml/src/re_compiler.rs"), encoding="utf-8").read()
    ms = list(re.finditer(r"\n    fn escape\(&mut self, in_square_brackets: bool\)\s*->\s*Result<CharacterClassOrBackReference, Error>\s*\{", src))
    if len(ms) != 1:
        raise CannotEncode("anchor for ReCompiler::escape not found exactly once")
    b0 = ms[0].end()
    b1 = _match_brace(src, b0, "ReCompiler::escape")
    body = src[b0:b1]
    info["slices"]["c07_escape"] = {"file": "regexml/src/re_compiler.rs", "first_line": src.count("\n", 0, b0) + 1,
                                    "lines": body.count("\n") + 1,
                                    "anchor": "fn escape(&mut self, in_square_brackets: bool) -> Result<CharacterClassOrBackReference, Error> {"}
    info["standins"].append("slice_esc::{View{pattern:&[char],idx,len,capturing_open_paren_count,captures,has_back_references,re_flags}, "
                            "CharacterClassBuilder -> tag enum (which class, complemented or not), category::* -> tags, "
                            "category_group -> the 37-name table, block -> arbitrary answer, String -> NameStr, format! -> unit, "
                            "Error{Internal,Syntax}}: what ReCompiler::escape touches")
    out.append('''
pub(crate) mod slice_esc {
    #![allow(unused)]
    macro_rules! format {
        ($($t:tt)*) => {
            ()
        };
    }
    #[derive(Clone, Copy, PartialEq, Eq)]
    pub(crate) enum Language {
        XSD,
        XPath,
    }
    pub(crate) struct Flags {
        pub lang: Language,
    }
    impl Flags {
        pub(crate) fn language(&self) -> Language {
            self.lang
        }
    }
    pub(crate) enum Error {
        Internal,
        Syntax,
    }
    impl Error {
        pub(crate) fn syntax<T>(_s: T) -> Error {
            Error::Syntax
        }
    }
    /// which multi-character class an escape denotes (contents are C10's subject)
    #[derive(Clone, Copy, PartialEq, Eq)]
    pub(crate) enum Kind {
        Space,
        NameStart,
        NameChar,
        Digit,
        Word,
        Category,
        Block,
        Other,
    }
    #[derive(Clone, Copy, PartialEq, Eq)]
    pub(crate) struct Tag {
        pub kind: Kind,
        pub negated: bool,
    }
    pub(crate) enum CharacterClassBuilder {
        Char(char),
        CodePointInversionListBuilder(Tag),
    }
    impl CharacterClassBuilder {
        pub(crate) fn from_char(c: char) -> Self {
            CharacterClassBuilder::Char(c)
        }
        pub(crate) fn from_str(_s: &str) -> Self {
            CharacterClassBuilder::CodePointInversionListBuilder(Tag { kind: Kind::Space, negated: false })
        }
        pub(crate) fn complement(self) -> Self {
            match self {
                CharacterClassBuilder::Char(_) => {
                    CharacterClassBuilder::CodePointInversionListBuilder(Tag { kind: Kind::Other, negated: true })
                }
                CharacterClassBuilder::CodePointInversionListBuilder(t) => {
                    CharacterClassBuilder::CodePointInversionListBuilder(Tag { kind: t.kind, negated: !t.negated })
                }
            }
        }
    }
    pub(crate) enum CharacterClassOrBackReference {
        CharacterClass(CharacterClassBuilder),
        BackReference(usize),
    }
    impl From<CharacterClassBuilder> for CharacterClassOrBackReference {
        fn from(cc: CharacterClassBuilder) -> Self {
            Self::CharacterClass(cc)
        }
    }
    /// stand-in for the String that holds a category / block name
    pub(crate) struct NameStr {
        pub a: [char; 8],
        pub n: usize,
    }
    impl<'a> core::iter::FromIterator<&'a char> for NameStr {
        fn from_iter<I: IntoIterator<Item = &'a char>>(it: I) -> Self {
            let mut s = NameStr { a: ['\\0'; 8], n: 0 };
            for c in it {
                if s.n < 8 {
                    s.a[s.n] = *c;
                }
                s.n += 1;
            }
            s
        }
    }
    #[allow(non_camel_case_types)]
    type String = NameStr;
    pub(crate) mod category {
        use super::{Error, Kind, NameStr, Tag};
        fn t(kind: Kind) -> Tag {
            Tag { kind, negated: false }
        }
        pub(crate) fn name_start_char() -> Tag {
            t(Kind::NameStart)
        }
        pub(crate) fn name_char() -> Tag {
            t(Kind::NameChar)
        }
        pub(crate) fn decimal_number() -> Tag {
            t(Kind::Digit)
        }
        pub(crate) fn word_char() -> Tag {
            t(Kind::Word)
        }
        /// the 37 XSD category names (the real table is e_category_names' subject)
        pub(crate) fn category_group(s: &NameStr) -> Result<Tag, Error> {
            let a = s.a[0];
            let b = s.a[1];
            let ok = match s.n {
                1 => matches!(a, 'L' | 'M' | 'N' | 'P' | 'Z' | 'S' | 'C'),
                2 => match a {
                    'L' => matches!(b, 'u' | 'l' | 't' | 'm' | 'o'),
                    'M' => matches!(b, 'n' | 'c' | 'e'),
                    'N' => matches!(b, 'd' | 'l' | 'o'),
                    'P' => matches!(b, 'c' | 'd' | 's' | 'e' | 'i' | 'f' | 'o'),
                    'Z' => matches!(b, 's' | 'l' | 'p'),
                    'S' => matches!(b, 'm' | 'c' | 'k' | 'o'),
                    'C' => matches!(b, 'c' | 'f' | 'o' | 'n'),
                    _ => false,
                },
                _ => false,
            };
            if ok { Ok(t(Kind::Category)) } else { Err(Error::Syntax) }
        }
        /// block names: 330-entry table, not modelled - an arbitrary answer
        pub(crate) fn block(_s: &NameStr) -> Result<Tag, Error> {
            if kani::any() { Ok(t(Kind::Block)) } else { Err(Error::Syntax) }
        }
    }
    pub(crate) struct Caps {
        pub closed: [bool; 16],
    }
    impl Caps {
        pub(crate) fn contains(&self, g: &usize) -> bool {
            *g < 16 && self.closed[*g]
        }
    }
    pub(crate) struct View<'a> {
        pub pattern: &'a [char],
        pub len: usize,
        pub idx: usize,
        pub capturing_open_paren_count: usize,
        pub captures: Caps,
        pub has_back_references: bool,
        pub re_flags: Flags,
    }
    impl<'a> View<'a> {
        pub(crate) fn escape(&mut self, in_square_brackets: bool) -> Result<CharacterClassOrBackReference, Error> {
            // ---- verbatim body of ReCompiler::escape ----
%s
            // ---- end of verbatim block ----
        }
    }
}
''' % body)
    # ---- C20/C02/C17/C01: ReCompiler::piece (whole body) --------------------------
    src = open(os.path.join(repo_dir, "regexml/src/re_compiler.rs"), encoding="utf-8").read()
    ms = list(re.finditer(r"\n    fn piece\(&mut self, flags: &\[u32\]\)\s*->\s*Result<Operation, Error>\s*\{", src))
    if len(ms) != 1:
        raise CannotEncode("anchor for ReCompiler::piece not found exactly once")
    b0 = ms[0].end()
    b1 = _match_brace(src, b0, "ReCompiler::piece")
    body = src[b0:b1]
    info["slices"]["c20_piece"] = {"file": "regexml/src/re_compiler.rs", "first_line": src.count("\n", 0, b0) + 1,
                                   "lines": body.count("\n") + 1,
                                   "anchor": "fn piece(&mut self, flags: &[u32]) -> Result<Operation, Error> {"}
    info["standins"].append("slice_piece::{View{pattern,idx,len,bracket_min,bracket_max,re_flags} with parse_terminal() = a harness-chosen "
                            "abstract term (anchor or a term with symbolic static facts: nullability code, fixed match length) consuming one "
                            "char, bracket() = a harness-chosen outcome (min<=max or Err) consuming one char; Operation and the operator "
                            "constructors -> records of their arguments}: what ReCompiler::piece touches")
    out.append('''
pub(crate) mod slice_piece {
    #![allow(unused)]
    pub(crate) const NODE_NORMAL: u32 = 0;
    pub(crate) const MATCHES_ZLS_ANYWHERE: u32 = 7;
    #[derive(Clone, Copy, PartialEq, Eq)]
    pub(crate) enum Language {
        XSD,
        XPath,
    }
    pub(crate) struct Flags {
        pub lang: Language,
    }
    impl Flags {
        pub(crate) fn language(&self) -> Language {
            self.lang
        }
    }
    pub(crate) enum Error {
        Internal,
        Syntax,
    }
    impl Error {
        pub(crate) fn syntax<T>(_s: T) -> Error {
            Error::Syntax
        }
    }
    /// an abstract terminal: only the static facts piece() looks at
    #[derive(Clone, Copy, PartialEq, Eq)]
    pub(crate) struct Term {
        pub zls: u32,
        pub ml: Option<usize>,
    }
    #[derive(Clone, Copy, PartialEq, Eq)]
    pub(crate) struct Bol;
    #[derive(Clone, Copy, PartialEq, Eq)]
    pub(crate) struct Eol;
    #[derive(Clone, Copy, PartialEq, Eq)]
    pub(crate) struct Nothing;
    #[derive(Clone, Copy, PartialEq, Eq)]
    pub(crate) struct GreedyFixed {
        pub min: usize,
        pub max: usize,
        pub len: usize,
    }
    #[derive(Clone, Copy, PartialEq, Eq)]
    pub(crate) struct ReluctantFixed {
        pub min: usize,
        pub max: usize,
        pub len: usize,
    }
    #[derive(Clone, Copy, PartialEq, Eq)]
    pub(crate) struct Repeat {
        pub min: usize,
        pub max: usize,
        pub greedy: bool,
    }
    impl GreedyFixed {
        pub(crate) fn new(_op: Operation, min: usize, max: usize, len: usize) -> Self {
            GreedyFixed { min, max, len }
        }
    }
    impl ReluctantFixed {
        pub(crate) fn new(_op: Operation, min: usize, max: usize, len: usize) -> Self {
            ReluctantFixed { min, max, len }
        }
    }
    impl Repeat {
        pub(crate) fn new(_op: Operation, min: usize, max: usize, greedy: bool) -> Self {
            Repeat { min, max, greedy }
        }
    }
    #[derive(Clone, Copy, PartialEq, Eq)]
    pub(crate) enum Operation {
        Bol(Bol),
        Eol(Eol),
        Term(Term),
        Nothing(Nothing),
        GreedyFixed(GreedyFixed),
        ReluctantFixed(ReluctantFixed),
        Repeat(Repeat),
    }
    impl From<Nothing> for Operation {
        fn from(x: Nothing) -> Self {
            Operation::Nothing(x)
        }
    }
    impl From<GreedyFixed> for Operation {
        fn from(x: GreedyFixed) -> Self {
            Operation::GreedyFixed(x)
        }
    }
    impl From<ReluctantFixed> for Operation {
        fn from(x: ReluctantFixed) -> Self {
            Operation::ReluctantFixed(x)
        }
    }
    impl From<Repeat> for Operation {
        fn from(x: Repeat) -> Self {
            Operation::Repeat(x)
        }
    }
    impl Operation {
        pub(crate) fn matches_empty_string(&self) -> u32 {
            match self {
                Operation::Bol(_) => 1,
                Operation::Eol(_) => 2,
                Operation::Term(t) => t.zls,
                _ => 7,
            }
        }
        pub(crate) fn get_match_length(&self) -> Option<usize> {
            match self {
                Operation::Bol(_) | Operation::Eol(_) | Operation::Nothing(_) => Some(0),
                Operation::Term(t) => t.ml,
                _ => None,
            }
        }
    }
    pub(crate) struct View<'a> {
        pub pattern: &'a [char],
        pub len: usize,
        pub idx: usize,
        pub bracket_min: usize,
        pub bracket_max: usize,
        pub re_flags: Flags,
        // environment: what the sub-parsers will answer
        pub terminal: Operation,
        pub bracket_ok: bool,
        pub bracket_answer: (usize, usize),
    }
    impl<'a> View<'a> {
        /// stand-in: the terminal is the one character at the cursor
        pub(crate) fn parse_terminal(&mut self, _flags: &[u32]) -> Result<Operation, Error> {
            self.idx += 1;
            Ok(self.terminal)
        }
        /// stand-in: `{...}` is one token; the answer (min <= max, or an error) is the harness' choice
        pub(crate) fn bracket(&mut self) -> Result<(), Error> {
            if self.bracket_ok {
                self.idx += 1;
                self.bracket_min = self.bracket_answer.0;
                self.bracket_max = self.bracket_answer.1;
                Ok(())
            } else {
                Err(Error::Syntax)
            }
        }
        pub(crate) fn piece(&mut self, flags: &[u32]) -> Result<Operation, Error> {
            // ---- verbatim body of ReCompiler::piece ----
%s
            // ---- end of verbatim block ----
        }
    }
}
''' % body)
    # ---- C09/C11: class parser + set algebra (three verbatim blocks) -------------
    cc = open(os.path.join(repo_dir, "regexml/src/character_class.rs"), encoding="utf-8").read()
    a0 = cc.find("pub(crate) enum CharacterClassBuilder {")
    if a0 < 0 or cc.find("pub(crate) enum CharacterClassBuilder {", a0 + 1) >= 0:
        raise CannotEncode("anchor for CharacterClassBuilder (character_class.rs) not found exactly once")
    a1 = cc.find("#[cfg(test)]", a0)
    algebra = cc[a0:a1 if a1 > 0 else len(cc)].rstrip() + "\n"
    src = open(os.path.join(repo_dir, "regexml/src/re_compiler.rs"), encoding="utf-8").read()

    def whole_fn(rx, what):
        ms = list(re.finditer(rx, src))
        if len(ms) != 1:
            raise CannotEncode("anchor for %s not found exactly once" % what)
        b0 = ms[0].end()
        b1 = _match_brace(src, b0, what)
        return src[b0:b1], src.count("\n", 0, b0) + 1

    esc_body, esc_line = whole_fn(r"\n    fn escape\(&mut self, in_square_brackets: bool\)\s*->\s*Result<CharacterClassOrBackReference, Error>\s*\{", "ReCompiler::escape")
    cls_body, cls_line = whole_fn(r"\n    fn parse_character_class\(&mut self\)\s*->\s*Result<CharacterClassBuilder, Error>\s*\{", "ReCompiler::parse_character_class")
    tf_body, tf_line = whole_fn(r"\n    fn there_follows\(&self, s: &str\)\s*->\s*bool\s*\{", "ReCompiler::there_follows")
    if cls_body.count("self.parse_character_class()") != 1:
        raise CannotEncode("parse_character_class no longer has exactly one recursive call site")
    if cls_body.count("self.escape(true)") != 1:
        raise CannotEncode("parse_character_class no longer has exactly one escape() call site")
    copies = ""
    for esc in (True, False):
        for lvl in (2, 1, 0):
            name = "pcc_%s%d" % ("e" if esc else "ne", lvl)
            nxt = ("pcc_%s%d" % ("e" if esc else "ne", lvl - 1)) if lvl > 0 else "parse_character_class_exhausted"
            body_l = cls_body.replace("self.parse_character_class()", "self.%s()" % nxt)
            if not esc:
                body_l = body_l.replace("self.escape(true)", "self.escape_excluded(true)")
            copies += ("        pub(crate) fn %s(&mut self) -> Result<CharacterClassBuilder, Error> {\n"
                       "            // ---- verbatim body of ReCompiler::parse_character_class (nesting level %d, escapes %s) ----\n"
                       "%s\n            // ---- end of verbatim block ----\n        }\n") % (name, lvl, "on" if esc else "excluded", body_l)
    info["slices"]["c09_class_parser"] = {"file": "regexml/src/re_compiler.rs", "first_line": cls_line,
                                          "lines": cls_body.count("\n") + 1,
                                          "anchor": "fn parse_character_class(&mut self) -> Result<CharacterClassBuilder, Error> {",
                                          "with": {"escape": esc_line}}
    info["slices"]["c09_set_algebra"] = {"file": "regexml/src/character_class.rs", "first_line": cc.count("\n", 0, a0) + 1,
                                         "lines": algebra.count("\n"), "anchor": "pub(crate) enum CharacterClassBuilder { .. } + impl"}
    info["standins"].append("slice_cls: CodePointInversionListBuilder / built list -> PSet/PBuilt = membership of ONE symbolic probe character "
                            "(add_char, add_range, add_set, remove_*, complement are exact for that character); CaseMapCloser -> arithmetic "
                            "case model; multi-character escapes -> an arbitrary but fixed membership bit per escape kind; "
                            "category_group -> the 37-name table, block -> arbitrary answer; String -> NameStr; format!/Error as in slice_esc; "
                            "there_follows -> an equivalent helper comparing against the ASCII literal without building a Vec")
    out.append('''
pub(crate) mod slice_cls {
    #![allow(unused)]
    macro_rules! format {
        ($($t:tt)*) => {
            ()
        };
    }
    /// the probe character all stand-in sets answer membership for
    pub(crate) static mut PROBE: char = 'x';
    /// membership of the probe in \\s-like multi-character escapes is exact; for the
    /// table-driven ones (\\i \\c \\d \\w \\p{..} blocks) an arbitrary fixed bit per kind
    pub(crate) static mut KIND_HAS: [bool; 6] = [false; 6];
    fn probe() -> char {
        unsafe { PROBE }
    }
    fn kind_has(k: usize) -> bool {
        unsafe { KIND_HAS[k] }
    }
    #[derive(Clone, Copy)]
    pub(crate) struct PBuilt {
        pub has: bool,
    }
    #[derive(Clone, Copy)]
    pub(crate) struct PSet {
        pub has: bool,
    }
    impl PSet {
        pub(crate) fn new() -> Self {
            PSet { has: false }
        }
        pub(crate) fn add_char(&mut self, c: char) {
            if c == probe() {
                self.has = true;
            }
        }
        pub(crate) fn remove_char(&mut self, c: char) {
            if c == probe() {
                self.has = false;
            }
        }
        pub(crate) fn add_range(&mut self, r: &core::ops::RangeInclusive<char>) {
            if *r.start() <= probe() && probe() <= *r.end() {
                self.has = true;
            }
        }
        pub(crate) fn add_set(&mut self, o: &PBuilt) {
            if o.has {
                self.has = true;
            }
        }
        pub(crate) fn remove_set(&mut self, o: &PBuilt) {
            if o.has {
                self.has = false;
            }
        }
        pub(crate) fn complement(&mut self) {
            self.has = !self.has;
        }
        pub(crate) fn build(self) -> PBuilt {
            PBuilt { has: self.has }
        }
    }
    #[allow(non_camel_case_types)]
    type CodePointInversionListBuilder = PSet;
    pub(crate) struct CharacterClass(pub PBuilt);
    pub(crate) struct CaseMapCloser;
    impl CaseMapCloser {
        pub(crate) fn new() -> Self {
            CaseMapCloser
        }
        /// adds the case counterparts of c (not c itself), per the arithmetic case model
        pub(crate) fn add_case_closure_to(&self, c: char, b: &mut PSet) {
            if probe() != c && super::model_eq_ci(probe(), c) {
                b.has = true;
            }
        }
    }
    #[derive(Clone, Copy, PartialEq, Eq)]
    pub(crate) enum Language {
        XSD,
        XPath,
    }
    pub(crate) struct Flags {
        pub lang: Language,
        pub ci: bool,
    }
    impl Flags {
        pub(crate) fn language(&self) -> Language {
            self.lang
        }
        pub(crate) fn is_case_independent(&self) -> bool {
            self.ci
        }
    }
    pub(crate) enum Error {
        Internal,
        Syntax,
    }
    impl Error {
        pub(crate) fn syntax<T>(_s: T) -> Error {
            Error::Syntax
        }
    }
    pub(crate) struct NameStr {
        pub a: [char; 8],
        pub n: usize,
    }
    impl<'a> core::iter::FromIterator<&'a char> for NameStr {
        fn from_iter<I: IntoIterator<Item = &'a char>>(it: I) -> Self {
            let mut s = NameStr { a: ['\\0'; 8], n: 0 };
            for c in it {
                if s.n < 8 {
                    s.a[s.n] = *c;
                }
                s.n += 1;
            }
            s
        }
    }
    #[allow(non_camel_case_types)]
    type String = NameStr;
    pub(crate) mod category {
        use super::{kind_has, Error, NameStr, PSet};
        pub(crate) fn name_start_char() -> PSet {
            PSet { has: kind_has(0) }
        }
        pub(crate) fn name_char() -> PSet {
            PSet { has: kind_has(1) }
        }
        pub(crate) fn decimal_number() -> PSet {
            PSet { has: kind_has(2) }
        }
        pub(crate) fn word_char() -> PSet {
            PSet { has: kind_has(3) }
        }
        pub(crate) fn category_group(s: &NameStr) -> Result<PSet, Error> {
            let a = s.a[0];
            let b = s.a[1];
            let ok = match s.n {
                1 => matches!(a, 'L' | 'M' | 'N' | 'P' | 'Z' | 'S' | 'C'),
                2 => match a {
                    'L' => matches!(b, 'u' | 'l' | 't' | 'm' | 'o'),
                    'M' => matches!(b, 'n' | 'c' | 'e'),
                    'N' => matches!(b, 'd' | 'l' | 'o'),
                    'P' => matches!(b, 'c' | 'd' | 's' | 'e' | 'i' | 'f' | 'o'),
                    'Z' => matches!(b, 's' | 'l' | 'p'),
                    'S' => matches!(b, 'm' | 'c' | 'k' | 'o'),
                    'C' => matches!(b, 'c' | 'f' | 'o' | 'n'),
                    _ => false,
                },
                _ => false,
            };
            if ok { Ok(PSet { has: kind_has(4) }) } else { Err(Error::Syntax) }
        }
        pub(crate) fn block(_s: &NameStr) -> Result<PSet, Error> {
            if kani::any() { Ok(PSet { has: kind_has(5) }) } else { Err(Error::Syntax) }
        }
    }
    pub(crate) struct Caps {
        pub closed: [bool; 16],
    }
    impl Caps {
        pub(crate) fn contains(&self, g: &usize) -> bool {
            *g < 16 && self.closed[*g]
        }
    }
    pub(crate) enum CharacterClassOrBackReference {
        CharacterClass(CharacterClassBuilder),
        BackReference(usize),
    }
    impl From<CharacterClassBuilder> for CharacterClassOrBackReference {
        fn from(cc: CharacterClassBuilder) -> Self {
            Self::CharacterClass(cc)
        }
    }
    // ---- verbatim from character_class.rs (CharacterClassBuilder and its set algebra) ----
%s
    // ---- end of verbatim block ----
    pub(crate) struct View<'a> {
        pub pattern: &'a [char],
        pub len: usize,
        pub idx: usize,
        pub capturing_open_paren_count: usize,
        pub captures: Caps,
        pub has_back_references: bool,
        pub re_flags: Flags,
        pub nesting_exhausted: bool,
        pub escape_reached: bool,
    }
    impl<'a> View<'a> {
        /// stand-in for ReCompiler::there_follows (the real one collects the ASCII
        /// literal into a Vec<char> first, which dominates symbolic execution time)
        pub(crate) fn there_follows(&self, s: &str) -> bool {
            let b = s.as_bytes();
            if self.idx + b.len() > self.len {
                return false;
            }
            let mut i = 0;
            while i < b.len() {
                if self.pattern[self.idx + i] != (b[i] as char) {
                    return false;
                }
                i += 1;
            }
            true
        }
        pub(crate) fn escape(&mut self, in_square_brackets: bool) -> Result<CharacterClassOrBackReference, Error> {
            // ---- verbatim body of ReCompiler::escape ----
%s
            // ---- end of verbatim block ----
        }
        // parse_character_class is recursive (class subtraction) and calls escape().
        // CBMC explores both even where a harness' assumptions exclude them, and Kani
        // applies its unwinding bound to recursion depth too.  So the body is pasted
        // once per (nesting level, escapes yes/no): the ONE recursive call site is
        // redirected to the next level, and in the "ne" copies the ONE escape() call
        // site is redirected to a flag-setting stub (texts without backslash).
%s
        /// nesting budget used up: the harness learns about it through this flag
        pub(crate) fn parse_character_class_exhausted(&mut self) -> Result<CharacterClassBuilder, Error> {
            self.nesting_exhausted = true;
            Err(Error::Syntax)
        }
        /// escape reached in a copy generated for backslash-free texts
        pub(crate) fn escape_excluded(&mut self, _in_square_brackets: bool) -> Result<CharacterClassOrBackReference, Error> {
            self.escape_reached = true;
            Err(Error::Syntax)
        }
    }
}
''' % (algebra, esc_body, copies))
    return "\n".join(out), info
