"""Verbatim source slices (DESIGN.md section 3.3).

Two kernels are statement blocks inside functions that cannot run under Kani
as a whole.  Their text is extracted from the CURRENT source on every run,
anchored on the header of the enclosing `if` and brace matching (never on line
numbers), and pasted unchanged into a generated function whose free names are
bound to small stand-ins (`BVec`, a `self` view).
"""
import os
import re


class CannotEncode(Exception):
    pass


def _block_after(src, header, what):
    """Return the text between the `{` that ends `header` and its matching `}`."""
    i = src.find(header)
    if i < 0:
        raise CannotEncode("anchor for %s not found: %r" % (what, header))
    if src.find(header, i + 1) >= 0:
        raise CannotEncode("anchor for %s is ambiguous: %r" % (what, header))
    j = i + len(header)
    assert src[j - 1] == "{"
    depth = 1
    k = j
    in_char = False
    while k < len(src):
        c = src[k]
        # skip char literals such as '{' or '\\' and string literals
        if c == "'":
            m = re.match(r"'(\\.|[^\\'])'", src[k:])
            if m:
                k += m.end()
                continue
        if c == '"':
            m = re.match(r'"(\\.|[^\\"])*"', src[k:])
            if m:
                k += m.end()
                continue
        if c == "/" and src[k:k + 2] == "//":
            k = src.find("\n", k)
            continue
        if c == "{":
            depth += 1
        elif c == "}":
            depth -= 1
            if depth == 0:
                return src[j:k], src.count("\n", 0, i) + 1
        k += 1
    raise CannotEncode("unbalanced braces after anchor for %s" % what)


STANDINS = r'''
// ---- stand-ins used only by the generated slices (environment, trusted) ----
#[derive(Clone, Copy)]
pub(crate) struct BVec<const N: usize> {
    pub a: [char; N],
    pub n: usize,
}
impl<const N: usize> BVec<N> {
    pub fn new() -> Self {
        BVec { a: ['\0'; N], n: 0 }
    }
    pub fn push(&mut self, c: char) {
        kani::assert(self.n < N, "standin BVec capacity exceeded");
        self.a[self.n] = c;
        self.n += 1;
    }
    pub fn len(&self) -> usize {
        self.n
    }
    pub fn is_empty(&self) -> bool {
        self.n == 0
    }
    pub fn extend(&mut self, s: &[char]) {
        let mut i = 0;
        while i < s.len() {
            self.push(s[i]);
            i += 1;
        }
    }
    pub fn iter(&self) -> std::slice::Iter<'_, char> {
        self.a[..self.n].iter()
    }
}
'''


def generate(repo_dir):
    info = {"standins": ["BVec<N>: fixed-capacity array + length standing in for Vec<char> inside slices",
                         "slice_c14::View {pattern, len}: the two ReCompiler fields the stripper touches",
                         "slice_c15::View {program.max_parens, get_paren(n)}: what the expansion loop reads of ReMatcher"],
            "slices": {}}
    out = [STANDINS]

    # ---- C14: x-flag whitespace stripper inside ReCompiler::compile -------
    src = open(os.path.join(repo_dir, "regexml/src/re_compiler.rs"), encoding="utf-8").read()
    body, line = _block_after(src, "if self.re_flags.is_allow_whitespace() {", "x-flag stripper (C14)")
    if "self.pattern = sb" not in body.replace("\n", " "):
        raise CannotEncode("x-flag stripper block no longer assigns the stripped text to self.pattern")
    info["slices"]["c14_strip"] = {"file": "regexml/src/re_compiler.rs", "first_line": line,
                                   "lines": body.count("\n"), "anchor": "if self.re_flags.is_allow_whitespace() {"}
    out.append('''
pub(crate) mod slice_c14 {
    #![allow(unused)]
    use super::BVec;
    #[allow(non_camel_case_types)]
    type Vec = BVec<8>;
    pub(crate) struct View {
        pub pattern: BVec<8>,
        pub len: usize,
    }
    impl View {
        pub(crate) fn run(&mut self) {
            // ---- verbatim from re_compiler.rs (ReCompiler::compile) ----
%s
            // ---- end of verbatim block ----
        }
    }
}
''' % body)

    # ---- C15: replacement expansion inside ReMatcher::replace -------------
    src = open(os.path.join(repo_dir, "regexml/src/re_matcher.rs"), encoding="utf-8").read()
    body, line = _block_after(src, "if !simple_replacement {", "replacement expansion (C15)")
    info["slices"]["c15_expand"] = {"file": "regexml/src/re_matcher.rs", "first_line": line,
                                    "lines": body.count("\n"), "anchor": "if !simple_replacement {"}
    out.append('''
pub(crate) mod slice_c15 {
    #![allow(unused)]
    use super::BVec;
    use crate::re_compiler::Error;
    pub(crate) struct Prog {
        pub max_parens: Option<usize>,
    }
    pub(crate) struct View {
        pub program: Prog,
        pub present: [bool; 13],
        pub text: [char; 13],
    }
    impl View {
        pub(crate) fn get_paren(&self, group_nr: usize) -> Option<&[char]> {
            if group_nr < 13 && group_nr < self.program.max_parens.unwrap() && self.present[group_nr] {
                Some(&self.text[group_nr..group_nr + 1])
            } else {
                None
            }
        }
        pub(crate) fn run(&self, replacement: &[char]) -> Result<(BVec<16>, bool), Error> {
            let mut result: BVec<16> = BVec::new();
            let mut simple_replacement = false;
            {
                // ---- verbatim from re_matcher.rs (ReMatcher::replace) ----
%s
                // ---- end of verbatim block ----
            }
            Ok((result, simple_replacement))
        }
    }
}
''' % body)
    return "\n".join(out), info
