#!/usr/bin/env python3
"""Runner for the solver-based checks of Paligo/regexml (see /verif/DESIGN.md).

For one property id it
  1. copies /repo's *current working tree* to a scratch directory,
  2. regenerates the harness source (hand-written harnesses from
     /verif/harness/*.rs + source slices extracted from the scratch copy),
  3. runs every harness of the property/tier through `cargo kani` (CBMC +
     CaDiCaL decide; unwinding assertions on), several at a time,
  4. classifies every failed CBMC check, replays counterexamples natively
     (`cargo kani playback`, dev and release) and – where a harness family has
     one – through the public API,
  5. writes /verif/evidence/<id>.json and prints VIOLATION / KNOWN-FINDING lines.

Exit codes: 0 all obligations discharged (or covered by a listed known
finding); 1 confirmed violation; 2 inconclusive (timeout, out of memory, tool
artefact, counterexample that does not replay); 3 cannot encode (slice anchors
missing, harness source does not compile).
"""
import argparse
import hashlib
import json
import os
import queue
import re
import shutil
import signal
import subprocess
import sys
import threading
import time

VERIF = os.path.dirname(os.path.dirname(os.path.abspath(__file__)))
REPO = os.environ.get("VERIF_REPO", "/repo")
HARNESS_DIR = os.path.join(VERIF, "harness")
EVIDENCE_DIR = os.path.join(VERIF, "evidence")
CACHE_DIR = os.path.join(VERIF, ".cache")
SCRATCH_BASE = os.environ.get("VERIF_SCRATCH", "/var/tmp")
KNOWN = os.path.join(VERIF, "known_findings.json")

sys.path.insert(0, os.path.join(VERIF, "lib"))
import slices  # noqa: E402
import apireplay  # noqa: E402

ENV = dict(os.environ)
ENV.update({"CARGO_NET_OFFLINE": "true", "CARGO_TERM_COLOR": "never"})
# never let an inherited target dir / toolchain pin leak into cargo kani
for k in ("CARGO_TARGET_DIR", "RUSTUP_TOOLCHAIN", "RUSTFLAGS", "CARGO_ENCODED_RUSTFLAGS"):
    ENV.pop(k, None)

STUBS = [
    "alloc::fmt::format -> empty String (message text is never compared)",
    "alloc::alloc::Global::deallocate_impl_runtime -> no-op (memory never freed inside a harness)",
    "ahash::RandomState::new -> fixed seeds (the real one reaches getrandom/dlsym FFI)",
    "icu_casemap::CaseMapper::simple_lowercase -> arithmetic model (ASCII, Latin-1, Greek, Cyrillic, Deseret offsets; "
    "identity elsewhere) in every harness except c11_icu_*, which run the real ICU lookup and tie the model to it",
]

TIER_DEFAULTS = {
    "quick": {"timeout": 1800, "mem_gb": 14},
    "thorough": {"timeout": 3000, "mem_gb": 24},
    "deep": {"timeout": 5400, "mem_gb": 30},
}


# --------------------------------------------------------------------------
# harness metadata
# --------------------------------------------------------------------------
class Harness:
    def __init__(self):
        self.name = None
        self.props = []
        self.tier = "quick"
        self.bound = ""
        self.encodes = []
        self.timeout = None
        self.mem_gb = None
        self.api = None
        self.cost = 60
        self.file = None
        self.cbmc_args = []
        self.needs_slice = None
        self.rss_gb = 4   # expected peak resident memory (GB), used for memory-aware scheduling

    def as_dict(self):
        return {
            "harness": self.name,
            "tier": self.tier,
            "bound": self.bound,
            "functions_encoded": self.encodes,
        }


def load_harnesses():
    hs = []
    for fn in sorted(os.listdir(HARNESS_DIR)):
        if not fn.endswith(".rs"):
            continue
        cur = None
        for line in open(os.path.join(HARNESS_DIR, fn), encoding="utf-8"):
            m = re.match(r"\s*//@\s*(\w+):\s*(.*?)\s*$", line)
            if not m:
                continue
            k, v = m.group(1), m.group(2)
            if k == "harness":
                cur = Harness()
                cur.name = v
                cur.file = fn
                hs.append(cur)
            elif cur is None:
                continue
            elif k == "props":
                cur.props = v.split()
            elif k == "tier":
                cur.tier = v
            elif k == "bound":
                cur.bound = (cur.bound + " " + v).strip()
            elif k == "encodes":
                cur.encodes += v.split()
            elif k == "timeout":
                cur.timeout = int(v)
            elif k == "mem":
                cur.mem_gb = int(v)
            elif k == "rss":
                cur.rss_gb = int(v)
            elif k == "api":
                cur.api = v
            elif k == "cost":
                cur.cost = int(v)
            elif k == "cbmc":
                cur.cbmc_args += v.split()
            elif k == "slice":
                cur.needs_slice = v
    names = [h.name for h in hs]
    dup = {n for n in names if names.count(n) > 1}
    if dup:
        raise SystemExit("duplicate harness names: %s" % sorted(dup))
    return hs


def harness_source(repo_dir):
    """Concatenate the hand-written harness files and the slices regenerated
    from the scratch copy of the repository."""
    parts = []
    for fn in sorted(os.listdir(HARNESS_DIR)):
        if fn.endswith(".rs"):
            parts.append("// ---- %s\n" % fn + open(os.path.join(HARNESS_DIR, fn), encoding="utf-8").read())
    gen, info = slices.generate(repo_dir)
    parts.append(gen)
    return "\n".join(parts), info


# --------------------------------------------------------------------------
# scratch tree and dependency cache
# --------------------------------------------------------------------------
def sh(cmd, **kw):
    return subprocess.run(cmd, shell=isinstance(cmd, str), stdout=subprocess.PIPE,
                          stderr=subprocess.STDOUT, text=True, **kw)


def cache_key():
    h = hashlib.sha256()
    for p in ("Cargo.lock", "regexml/Cargo.toml", "Cargo.toml"):
        try:
            h.update(open(os.path.join(REPO, p), "rb").read())
        except OSError:
            pass
    h.update(b"kani-0.68.0")
    return h.hexdigest()[:16]


def copy_repo(dst):
    os.makedirs(dst, exist_ok=True)
    r = sh(["rsync", "-a", "--delete", "--exclude", "/target", "--exclude", "/.git",
            "--exclude", "/java", REPO + "/", dst + "/"])
    if r.returncode != 0:
        raise SystemExit("rsync failed: " + r.stdout)


TRIVIAL = """#![allow(unused)]
#[kani::proof]
fn verif_cache_warmup() { let x: u8 = kani::any(); kani::assert(x == x, "warmup"); }
"""


def ensure_cache(log=print):
    """Pre-built *registry dependencies* for cargo-kani (icu, ahash, …).  The
    regexml crate itself is always rebuilt from the scratch copy."""
    import fcntl
    os.makedirs(CACHE_DIR, exist_ok=True)
    key = cache_key()
    dst = os.path.join(CACHE_DIR, "kani-target-" + key)
    lock = open(os.path.join(CACHE_DIR, "lock"), "w")
    fcntl.flock(lock, fcntl.LOCK_EX)
    try:
        if os.path.exists(os.path.join(dst, ".complete")):
            return dst
        # (caches for other lock files are left alone: another run may be copying one)
        log("building cargo-kani dependency cache (%s) ..." % key)
        tmp = os.path.join(SCRATCH_BASE, "regexml-verif-cache-%d" % os.getpid())
        shutil.rmtree(tmp, ignore_errors=True)
        try:
            copy_repo(os.path.join(tmp, "repo"))
            with open(os.path.join(tmp, "repo/regexml/src/verif_kani.rs"), "w") as f:
                f.write(TRIVIAL)
            r = sh(["cargo", "kani", "-Z", "stubbing", "--only-codegen", "--target-dir", dst],
                   cwd=os.path.join(tmp, "repo/regexml"), env=ENV)
            if r.returncode != 0:
                shutil.rmtree(dst, ignore_errors=True)
                raise SystemExit("cache build failed:\n" + r.stdout[-4000:])
            open(os.path.join(dst, ".complete"), "w").write(key)
        finally:
            shutil.rmtree(tmp, ignore_errors=True)
        return dst
    finally:
        fcntl.flock(lock, fcntl.LOCK_UN)
        lock.close()


# --------------------------------------------------------------------------
# running one harness
# --------------------------------------------------------------------------
CHECK_RE = re.compile(
    r"^Check (\d+): (.+)\n\t - Status: (\w+)\n\t - Description: \"(.*)\"\n\t - Location: (.*)$",
    re.M)


class Result:
    def __init__(self, h):
        self.h = h
        self.status = "inconclusive"   # pass | fail | inconclusive
        self.reason = ""
        self.n_checks = 0
        self.n_failed = 0
        self.failed = []      # dicts: id, desc, loc, cls
        self.covers = []      # (desc, status)
        self.verif_time = 0.0
        self.wall = 0.0
        self.log = ""
        self.playback_src = None
        self.replay = None
        self.max_rss_mb = 0
        self.playback_all = []

    def summary(self):
        d = self.h.as_dict()
        d.update({
            "status": self.status,
            "reason": self.reason,
            "cbmc_properties_checked": self.n_checks,
            "cbmc_properties_failed": self.n_failed,
            "cover_witnesses": ["%s: %s" % (d_, s) for d_, s in self.covers],
            "solver_time_s": round(self.verif_time, 1),
            "wall_s": round(self.wall, 1),
            "max_rss_mb": self.max_rss_mb,
        })
        if self.failed:
            d["failed_checks"] = self.failed[:12]
        if self.replay:
            d["replay"] = self.replay
        return d


VERBATIM_RANGES = []   # (first_line, last_line) of pasted repository code inside verif_kani.rs


def set_verbatim_ranges(src):
    del VERBATIM_RANGES[:]
    start = None
    for n, line in enumerate(src.split("\n"), 1):
        if "// ---- verbatim" in line:
            start = n
        elif "// ---- end of verbatim block" in line and start is not None:
            VERBATIM_RANGES.append((start, n))
            start = None


def classify_failed(chk_id, desc, loc):
    """Which role does a failed CBMC check play?  (DESIGN.md §3.4 rule 6)"""
    in_repo = "regexml/src/" in loc and "verif_kani.rs" not in loc
    in_harness = "verif_kani.rs" in loc
    m = re.search(r"verif_kani\.rs:(\d+):", loc)
    if m and any(a <= int(m.group(1)) <= b for a, b in VERBATIM_RANGES):
        # repository code pasted verbatim into a generated slice
        in_repo, in_harness = True, False
    if "unwinding assertion" in desc or ".unwind." in chk_id or "recursion" in desc:
        if in_repo:
            return "unwind-repo"
        return "unwind-harness"
    if in_harness and re.match(r"^C\d\d[.\w-]*", desc):
        return "assertion"
    if in_harness:
        # index / overflow inside the harness' own oracle code: harness bug
        return "harness-internal"
    if in_repo:
        if ("overflow" in desc or "index out of bounds" in desc or "unwrap" in desc
                or "panic" in desc or "assertion failed" in desc or "division" in desc
                or "divide" in desc or "remainder" in desc or "unreachable" in desc
                or "explicit" in desc or "range " in desc or "slice" in desc
                or "not yet implemented" in desc or "expect" in desc
                or "already borrowed" in desc or "already mutably borrowed" in desc):
            return "panic-repo"
        return "other-repo"
    return "foreign"


def run_harness(h, repo_dir, target_dir, tier, logdir, playback=False):
    """One `cargo kani` run.  The concrete-playback instrumentation makes CBMC
    ~4x slower (measured), so it is only switched on for the second run of a
    harness that has already failed."""
    res = Result(h)
    dflt = TIER_DEFAULTS[tier]
    tmo = h.timeout or dflt["timeout"]
    tmo = int(tmo * float(os.environ.get("VERIF_TIMEOUT_SCALE", "1")))
    mem = (h.mem_gb or dflt["mem_gb"]) * 1024 * 1024
    cmd = ["cargo", "kani", "-Z", "stubbing", "--exact", "--harness", "verif_kani::" + h.name,
           "--target-dir", target_dir, "--output-format", "regular"]
    if playback:
        cmd[4:4] = ["-Z", "concrete-playback", "--concrete-playback=print"]
        tmo *= 4
    if h.cbmc_args:
        cmd += ["--cbmc-args"] + h.cbmc_args
    shell = "ulimit -v %d; exec /usr/bin/time -f 'VERIF-MAXRSS-KB %%M' %s" % (mem, " ".join("'%s'" % c for c in cmd))
    t0 = time.time()
    logp = os.path.join(logdir, h.name + (".playback" if playback else "") + ".log")
    with open(logp, "w") as lf:
        p = subprocess.Popen(["bash", "-c", shell], cwd=os.path.join(repo_dir, "regexml"),
                             env=ENV, stdout=lf, stderr=subprocess.STDOUT,
                             start_new_session=True)
        timed_out = False
        try:
            p.wait(timeout=tmo)
        except subprocess.TimeoutExpired:
            timed_out = True
            try:
                os.killpg(p.pid, signal.SIGKILL)
            except ProcessLookupError:
                pass
            p.wait()
    res.wall = time.time() - t0
    out = open(logp, errors="replace").read()
    res.log = logp
    mr = re.search(r"VERIF-MAXRSS-KB (\d+)", out)
    if mr:
        res.max_rss_mb = int(mr.group(1)) // 1024
    if timed_out:
        res.reason = "timeout after %ds" % tmo
        return res
    if re.search(r"^error(\[E\d+\])?:", out, re.M) and "Checking harness" not in out:
        res.status = "compile-error"
        res.reason = "harness source does not compile against the current tree"
        return res
    m = re.search(r"Verification Time: ([\d.]+)s", out)
    if m:
        res.verif_time = float(m.group(1))
    for cm in CHECK_RE.finditer(out):
        cid, name, status, desc, loc = cm.groups()
        if ".cover." in name:
            res.covers.append((desc, status))
            continue
        res.n_checks += 1
        if status == "FAILURE":
            res.n_failed += 1
            res.failed.append({"check": name, "description": desc, "location": loc.strip(),
                               "class": classify_failed(name, desc, loc)})
    verdict = re.search(r"VERIFICATION:- (\w+)", out)
    if "Out of memory" in out or "ran out of memory" in out or "std::bad_alloc" in out or re.search(r"CBMC failed with status", out):
        res.reason = "CBMC error / out of memory"
        return res
    if not verdict:
        if "Status: ERROR" in out or "std::bad_alloc" in out or "Out of memory" in out or p.returncode in (137, 134, -9):
            res.reason = "CBMC error / out of memory (rc=%s)" % p.returncode
        elif "no harnesses matched" in out or "No proof harnesses" in out:
            res.status = "compile-error"
            res.reason = "harness not found in generated source"
        else:
            res.reason = "no verdict (rc=%s)" % p.returncode
        return res
    # Kani prints one playback test per satisfied cover AND per failed check, and
    # prints a set of concrete values only once: when a failed assertion's
    # witness equals a cover's witness only the cover's test appears.  So tests
    # of failed checks come first, cover tests are kept as further candidates.
    blocks = re.findall(r"Concrete playback unit test for `[^`]*`:\n```\n(.*?)\n```", out, re.S)
    cands = []
    for b in blocks:
        hm = re.search(r"/// Check for `([^`]*)`: \"(.*)\"", b)
        cands.append((hm.group(1) if hm else "?", hm.group(2) if hm else "", b))
    cands.sort(key=lambda c: c[0] == "cover")
    res.playback_all = cands
    if cands:
        res.playback_src = cands[0][2]
    unsat_cover = [d for d, s in res.covers if s != "SATISFIED"]
    if verdict.group(1) == "SUCCESSFUL":
        if res.n_failed:
            res.reason = "successful verdict with failed checks?"
        elif unsat_cover:
            res.reason = "vacuity witness not satisfied: %s" % unsat_cover
        elif not res.covers:
            res.reason = "harness has no vacuity witness"
        else:
            res.status = "pass"
        return res
    # FAILED
    classes = {f["class"] for f in res.failed}
    if not res.failed:
        res.reason = "FAILED verdict without a failed check (unsupported construct reachable / cover only?)"
        if unsat_cover and not res.n_failed:
            res.reason = "vacuity witness not satisfied: %s" % unsat_cover
        return res
    real = classes & {"assertion", "panic-repo", "unwind-repo"}
    if real:
        res.status = "fail"
        res.reason = "failed checks of class %s" % sorted(real)
    else:
        res.reason = "only tool-artefact / harness-internal checks failed: %s" % sorted(classes)
    return res


# --------------------------------------------------------------------------
# native replay of a counterexample (unit level): cargo kani playback
# --------------------------------------------------------------------------
def unit_playback(res, repo_dir):
    """Append the generated unit tests to the scratch harness file and run them
    natively, one at a time, until one reproduces (panic or hang)."""
    out = {"kind": "kani-concrete-playback", "reproduced": False, "tests_tried": 0}
    cands = [c[2] for c in (res.playback_all or [])][:8]
    if not cands and res.playback_src:
        cands = [res.playback_src]
    if not cands:
        out["note"] = "Kani produced no concrete playback test"
        return out
    path = os.path.join(repo_dir, "regexml/src/verif_kani.rs")
    names = []
    with open(path, "a") as f:
        for src in cands:
            m = re.search(r"fn (kani_concrete_playback_\w+)\(", src)
            if not m or m.group(1) in names:
                continue
            names.append(m.group(1))
            f.write("\n#[cfg(test)]\nmod verif_playback_%s {\n    use super::*;\n%s\n}\n" % (m.group(1), src))
    env = dict(ENV)
    env["CARGO_TARGET_DIR"] = os.path.join(os.path.dirname(repo_dir), "playback-target")
    cwd = os.path.join(repo_dir, "regexml")
    base = ["cargo", "kani", "playback", "-Z", "concrete-playback"]
    # 1. build the test binary (a filter that matches nothing runs no test)
    b = sh(base + ["--", "verif_no_such_test_zz"], cwd=cwd, env=env)
    if "running 0 tests" not in b.stdout:
        out["dev"] = "playback build failed: " + b.stdout[-800:]
        return out
    # 2. run the tests one by one under a watchdog (a hang is the native face
    #    of an unwinding-assertion failure)
    watchdog = int(os.environ.get("VERIF_PLAYBACK_WATCHDOG", "90"))
    for k, tname in enumerate(names):
        src = cands[k]
        pp = subprocess.Popen(base + ["--", tname], cwd=cwd, env=env, text=True, stdout=subprocess.PIPE,
                              stderr=subprocess.STDOUT, start_new_session=True)
        try:
            txt, _ = pp.communicate(timeout=watchdog)
            rc = pp.returncode
        except subprocess.TimeoutExpired:
            # a hung native test: kill the whole process group (cargo, test runner, test binary)
            try:
                os.killpg(pp.pid, signal.SIGKILL)
            except ProcessLookupError:
                pass
            try:
                txt, _ = pp.communicate(timeout=10)
            except Exception:
                txt = ""
            rc = "timeout"
        try:
            open(os.path.join(os.path.dirname(repo_dir), "logs", "%s.native-playback-%d.log" % (res.h.name, k)), "w").write(txt)
        except OSError:
            pass
        out["tests_tried"] = k + 1
        ran = "running 1 test" in txt
        failed = "test result: FAILED" in txt or "panicked at" in txt
        vals = re.findall(r"vec!\[([\d, ]*)\]", src)
        if rc == "timeout":
            out["dev"] = "hang: native run of the counterexample exceeded the %ds watchdog" % watchdog
            out["reproduced"] = True
        elif ran and failed:
            pm = re.search(r"panicked at ([^\n]*)\n([^\n]*)", txt)
            out["dev"] = "panic: " + (pm.group(1) + " | " + pm.group(2) if pm else "?")
            out["reproduced"] = True
        elif ran:
            out["dev"] = "test(s) passed natively (counterexample NOT reproduced)"
        else:
            out["dev"] = "playback could not run: " + txt[-600:]
        if out["reproduced"]:
            out["concrete_vals"] = [[int(x) for x in v.split(",") if x.strip()] for v in vals]
            break
    return out


# --------------------------------------------------------------------------
# known findings
# --------------------------------------------------------------------------
def load_known():
    try:
        return json.load(open(KNOWN))
    except OSError:
        return {"open": [], "fixed": []}


def match_known(known, prop, res):
    """A failed harness is covered by a known finding iff EVERY real failed
    check of it matches the role recorded for an *open* finding."""
    real = [f for f in res.failed if f["class"] in ("assertion", "panic-repo", "unwind-repo")]
    hits = []
    for f in real:
        hit = None
        for k in known.get("open", []):
            if prop not in k.get("properties", []):
                continue
            if k.get("harness") and k["harness"] != res.h.name:
                continue
            if k.get("check_description") and k["check_description"] != f["description"]:
                continue
            if k.get("location_function") and k["location_function"] not in f["location"]:
                continue
            hit = k
            break
        if hit is None:
            return None
        hits.append(hit)
    return hits


# --------------------------------------------------------------------------
# main
# --------------------------------------------------------------------------
def main():
    ap = argparse.ArgumentParser()
    ap.add_argument("prop", nargs="?")
    ap.add_argument("--tier", default=os.environ.get("VERIF_TIER", "quick"))
    ap.add_argument("--setup", action="store_true")
    ap.add_argument("--list", action="store_true")
    ap.add_argument("--only", help="comma-separated harness names (development)")
    ap.add_argument("--jobs", type=int, default=int(os.environ.get("VERIF_JOBS", "8")))
    ap.add_argument("--keep", action="store_true")
    ap.add_argument("--replay", help="re-run the harness recorded in a replay file")
    ap.add_argument("--no-evidence", action="store_true")
    a = ap.parse_args()
    if a.tier not in ("quick", "thorough", "deep"):
        a.tier = "quick"
    seed = int(os.environ.get("VERIF_SEED", "0") or 0)

    if a.setup:
        ensure_cache()
        print("setup ok")
        return 0

    hs = load_harnesses()
    if a.list:
        for h in hs:
            print("%-40s %-9s %s" % (h.name, h.tier, " ".join(h.props)))
        return 0

    if a.replay:
        rp = json.load(open(a.replay))
        a.prop = rp["property"]
        a.only = rp["harness"]
        a.tier = rp.get("tier", "thorough")

    if not a.prop:
        ap.error("property id required")
    prop = a.prop
    # quick < thorough < deep ("deep" harnesses are not part of any registered command:
    # they need 20-60 min and 20+ GB each and are run by name or with --tier deep)
    rank = {"quick": 0, "thorough": 1, "deep": 2}
    sel = [h for h in hs if prop in h.props and rank.get(h.tier, 2) <= rank[a.tier]]
    if a.only:
        names = a.only.split(",")
        sel = [h for h in hs if h.name in names]
    if not sel:
        print("no harness registered for %s" % prop)
        return 3

    t_start = time.time()
    scratch = os.path.join(SCRATCH_BASE, "regexml-verif-%s-%s-%d" % (prop, a.tier, os.getpid()))
    shutil.rmtree(scratch, ignore_errors=True)
    os.makedirs(scratch)
    logdir = os.path.join(scratch, "logs")
    os.makedirs(logdir)
    rc = 0
    try:
        repo_dir = os.path.join(scratch, "repo")
        copy_repo(repo_dir)
        try:
            src, slice_info = harness_source(repo_dir)
        except slices.CannotEncode as e:
            print("CANNOT-ENCODE property=%s %s" % (prop, e))
            needed = {h.needs_slice for h in sel if h.needs_slice}
            write_evidence(prop, a.tier, seed, [], [], time.time() - t_start,
                           note="cannot encode: %s" % e, slice_info={})
            return 3
        with open(os.path.join(repo_dir, "regexml/src/verif_kani.rs"), "w") as f:
            f.write(src)
        set_verbatim_ranges(src)
        cache = ensure_cache()
        jobs = max(1, min(a.jobs, len(sel)))
        q = queue.Queue()
        for h in sorted(sel, key=lambda h: -h.cost):
            q.put(h)
        results = []
        lock = threading.Lock()

        # memory-aware scheduling: the expected peak RSS of the harnesses running at
        # the same time stays below the budget (62 GB machine, no swap)
        budget = int(os.environ.get("VERIF_MEM_BUDGET_GB", "50"))
        mem_cv = threading.Condition()
        in_use = [0]

        def worker(k):
            tdir = os.path.join(scratch, "t%d" % k)
            sh(["cp", "-a", cache, tdir])
            while True:
                try:
                    h = q.get_nowait()
                except queue.Empty:
                    return
                need = min(h.rss_gb, budget)
                with mem_cv:
                    while in_use[0] + need > budget:
                        mem_cv.wait()
                    in_use[0] += need
                try:
                    run_one(h, tdir)
                finally:
                    with mem_cv:
                        in_use[0] -= need
                        mem_cv.notify_all()

        def run_one(h, tdir):
            if True:
                r = run_harness(h, repo_dir, tdir, a.tier, logdir)
                if r.status == "fail":
                    # second run, instrumented, to obtain concrete witness values
                    r2 = run_harness(h, repo_dir, tdir, a.tier, logdir, playback=True)
                    real_desc = [f["description"] for f in r.failed
                                 if f["class"] in ("assertion", "panic-repo", "unwind-repo")]
                    # order: tests of the violation candidates, other failed checks, cover witnesses
                    order = sorted(r2.playback_all, key=lambda c: (c[1] not in real_desc, c[0] == "cover"))
                    r.playback_all = order
                    r.playback_src = order[0][2] if order else None
                    r.wall += r2.wall
                with lock:
                    results.append(r)
                    print("  [%s] %-38s %-12s %6.0fs  %s" % (prop, h.name, r.status, r.wall, r.reason), flush=True)

        ths = [threading.Thread(target=worker, args=(k,)) for k in range(jobs)]
        for t in ths:
            t.start()
        for t in ths:
            t.join()

        results.sort(key=lambda r: r.h.name)
        known = load_known()
        violations = []
        known_hits = []
        inconclusive = []
        for r in results:
            if r.status == "pass":
                continue
            if r.status == "compile-error":
                inconclusive.append(r)
                rc = max(rc, 3)
                continue
            if r.status == "fail":
                # replay before reporting
                r.replay = unit_playback(r, repo_dir)
                api = apireplay.confirm(r, repo_dir, scratch, ENV)
                if api is not None:
                    r.replay["api"] = api
                reproduced = r.replay.get("reproduced") or (api or {}).get("reproduced")
                if not reproduced:
                    r.status = "inconclusive"
                    r.reason = "counterexample did not reproduce natively: " + r.reason
                    inconclusive.append(r)
                    continue
                hits = match_known(known, prop, r)
                if hits is not None:
                    for k in {k["id"]: k for k in hits}.values():
                        known_hits.append((k, r))
                    r.status = "known-finding"
                    continue
                violations.append(r)
            else:
                inconclusive.append(r)

        for k, r in known_hits:
            print("KNOWN-FINDING: property=%s %s (%s; harness %s)" % (prop, k["what"], k["id"], r.h.name))
        os.makedirs(os.path.join(EVIDENCE_DIR, "replay"), exist_ok=True)
        for i, r in enumerate(violations):
            rp = os.path.join(EVIDENCE_DIR, "replay", "%s-%s.json" % (prop, r.h.name))
            json.dump({"property": prop, "harness": r.h.name, "tier": a.tier, "bound": r.h.bound,
                       "failed_checks": r.failed, "replay": r.replay,
                       "how_to_replay": "./check %s --replay %s" % (prop, rp)}, open(rp, "w"), indent=1)
            print("VIOLATION property=%s replay=%s" % (prop, rp))
            for f in r.failed[:4]:
                print("    %s: %s @ %s" % (f["class"], f["description"], f["location"]))
        for r in inconclusive:
            print("INCONCLUSIVE property=%s harness=%s: %s" % (prop, r.h.name, r.reason))
        if violations:
            rc = 1
        elif inconclusive and rc == 0:
            rc = 2
        if not a.no_evidence and not a.only:
            write_evidence(prop, a.tier, seed, results, violations, time.time() - t_start,
                           slice_info=slice_info, known_hits=known_hits, inconclusive=inconclusive)
        if a.keep or (rc != 0 and os.environ.get("VERIF_KEEP_FAILED")):
            keep = os.path.join(SCRATCH_BASE, "regexml-verif-kept-%s-%s" % (prop, "only" if a.only else a.tier))
            shutil.rmtree(keep, ignore_errors=True)
            shutil.copytree(logdir, keep)
            shutil.copy(os.path.join(repo_dir, "regexml/src/verif_kani.rs"), keep)
            print("logs kept in", keep)
        n_pass = sum(1 for r in results if r.status == "pass")
        print("%s %s: %d/%d harnesses discharged, %d violation(s), %d known finding(s), %d inconclusive, %.0fs" % (
            prop, a.tier, n_pass, len(results), len(violations), len(known_hits), len(inconclusive),
            time.time() - t_start))
        return rc
    finally:
        shutil.rmtree(scratch, ignore_errors=True)


def write_evidence(prop, tier, seed, results, violations, wall, slice_info=None, note=None,
                   known_hits=(), inconclusive=()):
    os.makedirs(EVIDENCE_DIR, exist_ok=True)
    passed = [r for r in results if r.status == "pass"]
    covers = []
    for r in passed:
        for d, s in r.covers:
            if s == "SATISFIED":
                covers.append("%s: %s" % (r.h.name, d))
    enc = sorted({e for r in results for e in r.h.encodes})
    used_slices = {r.h.needs_slice for r in results if r.h.needs_slice}
    if "c09_class_parser" in used_slices:
        used_slices.add("c09_set_algebra")
    ev = {
        "property_id": prop,
        "tier": "thorough" if tier == "deep" else tier,
        "seed": seed,
        "level": "model_checking",
        "wall_s": round(wall, 1),
        "violations": len(violations),
        "coverage": {
            "evaluations": max(1, len(results)),
            "distinct_nontrivial": len(set(covers)),
            "rule": ("one evaluation = one Kani proof harness decided by CBMC/CaDiCaL over ALL values of its "
                     "symbolic inputs within the stated bound (unwinding assertions on); distinct_nontrivial = "
                     "number of distinct vacuity witnesses (kani::cover! path classes of the oracle) that the "
                     "solver showed reachable in fully discharged harnesses"),
            "samples": [r.summary() for r in results][:40],
            "exhaustive": False,
            "harnesses_discharged": len(passed),
            "harnesses_total": len(results),
            "functions_encoded": enc,
            "bounds": {r.h.name: r.h.bound for r in results},
            "cbmc_properties_checked": sum(r.n_checks for r in results),
            "cbmc_properties_failed": sum(r.n_failed for r in results),
            "solver_time_s": round(sum(r.verif_time for r in results), 1),
            "stubs": STUBS,
            "standins": (slice_info or {}).get("standins", []) if used_slices else [],
            "slices": {k: v for k, v in (slice_info or {}).get("slices", {}).items() if k in used_slices},
            "inconclusive": [{"harness": r.h.name, "reason": r.reason} for r in inconclusive],
            "known_findings_hit": [k["id"] for k, _ in known_hits],
            "explanation": ("bounded model checking of the compiled Rust code (Kani 0.68 -> CBMC 6.11, CaDiCaL); "
                            "nothing outside the per-harness bounds is claimed; see DESIGN.md section 4 for what "
                            "each property's claim leaves outside"),
        },
        "assumptions": [
            "stubs and stand-ins listed under coverage are trusted",
            "harness-built single-operator ReProgram values stand for the sub-terms the compiler produces",
            "Kani/CBMC model of Rust semantics; CaDiCaL",
        ],
    }
    if note:
        ev["coverage"]["note"] = note
    json.dump(ev, open(os.path.join(EVIDENCE_DIR, prop + ".json"), "w"), indent=1)


if __name__ == "__main__":
    sys.exit(main())
