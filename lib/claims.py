# Claim table (exec'd by mkmanifest.py).  Keep in step with DESIGN.md section 4.
claim("C01", "UNIT SCOPE ONLY. For bare single-operator programs (Atom, CharClass over static lists) run through the real "
      "search loop: matches(i)/is_match agree with a closed-form membership oracle for every input up to the stated "
      "length over all Unicode scalar values. Multi-term patterns (Sequence, Choice, greedy variable Repeat) and the "
      "compiler are outside the claim.", "DESIGN.md 4 C01")
claim("C12", "Bol/Eol::matches_iter succeed exactly at the positions the statement names for every input <= 3 chars over "
      "all scalar values, every position, flag m on/off. Anchors inside larger patterns are outside the claim.",
      "DESIGN.md 4 C12")
for p in ("C02", "C03", "C05", "C06", "C07", "C08", "C11", "C13", "C14", "C15", "C17", "C19", "C20"):
    na(p, "check under construction in this session (planned claim: see DESIGN.md section 4); not claimed until it runs clean")
na("C04", "the replace/tokenize/analyze scan loops build a String/Vec per item from symbolic-length slices; Kani 0.68 answers "
   "with spurious pointer failures (probes P14, P27) - no sound solver verdict obtainable (DESIGN.md 4 C04)")
na("C09", "class set algebra goes through ICU's CodePointInversionListBuilder, which runs out of memory / time under CBMC even "
   "for concrete 3-item classes (probes P15, P18); the class parser cannot take symbolic text (P26)")
na("C10", "finite Unicode data diff with no symbolic dimension beyond one code point; ICU trie iteration is out of CBMC's reach; "
   "the category-name mapping is decided under C07")
na("C16", "nullability is computed by running the whole compiled matcher on the empty string (compiler + Sequence, probes P1/P3); "
   "the API guards are field tests with no symbolic content")
na("C18", "schedules: Kani does not model threads; histories: the only cross-call state is per-call ReMatcher (type structure) "
   "and the History memo used by greedy variable Repeat (out of reach, P6)")
