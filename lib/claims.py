# Claim table (exec'd by mkmanifest.py).  Keep in step with DESIGN.md section 4.
U = "UNIT SCOPE ONLY (no harness runs the compiler or a Sequence/Choice/greedy variable Repeat; see DESIGN.md 1.2). "

claim("C01", U + "For bare single-operator programs - Atom[c], Atom[c1,c2] (flag i on/off), CharClass over static inversion "
      "lists ('.', '.' with s, [a-c], \\s, {c}), GreedyFixed / ReluctantFixed / UnambiguousRepeat / reluctant variable Repeat over "
      "Atom[c] with min<=2, max in {1,2,3,unbounded} - run through the real search loop (ReMatcher::matches/match_at): the answer "
      "equals a closed-form substring-membership oracle for every input up to 2 chars (3 thorough for Atom/CharClass programs; the "
      "repeat operators with symbolic bounds exhaust 24 GB at 3) over ALL Unicode scalar values and "
      "every search start; plus full-width (all usize) min<=max arithmetic of the four repeat operators.", "DESIGN.md 4 C01")
claim("C02", U + "Same programs: match start = leftmost admissible position, match end = longest admissible run for greedy operators and "
      "shortest for reluctant ones (zero-occurrence first); complete yield order of the GreedyFixed (strictly descending, never below "
      "min, body length 1 and 2) and ReluctantFixed (ascending) iterators; the prefix scan never skips an occurrence of a "
      "three-character literal; the quantifier lowering in the compiler (piece(), verbatim slice) gives every quantified term the right bounds and "
      "the right greedy/reluctant flag. Offsets are char offsets over all scalar values. Priority between alternatives / "
      "earlier-term dominance is outside.",
      "DESIGN.md 4 C02")
claim("C03", U + "Bare Capture(1,Atom[c]): group span = sub-match span, paren_count, group text, back-reference arrays; absent group "
      "absent after a failed search; ONE SEARCH FROM AN ARBITRARY PRIOR capture/back-reference state leaves exactly the fresh-matcher "
      "state (inductive step for state reset, plain and OPT_HASBOL paths); nesting table gives each capturing '(' its enclosing group "
      "(slice). Capture state while backtracking through alternatives/loops is outside.", "DESIGN.md 4 C03")
claim("C05", "Union of unit obligations, each for ALL values in its bound: no panic / overflow / index error in ReFlags::new (all ASCII "
      "strings <=3, both dialects), compute_nesting_table (all texts <=5), the four repeat operators for all usize min<=max and for "
      "positions beyond the end of the input, BackReference for every recorded span, Bol/Eol at every position, the substitution step "
      "of replace (all replacement texts <=4, 0..12 groups), ReCompiler::bracket on {a,b} / {a} / {a,} for all chars; errors are "
      "InvalidFlags / Syntax / InvalidReplacementString, never Internal. The recursive-descent parser on arbitrary text is outside.",
      "DESIGN.md 4 C05")
claim("C06", U + "Decided by unwinding assertions with stated bounds: every next() of the reluctant variable Repeat (through the real "
      "Repeat::matches_iter) and of ReluctantFixed terminates, including bodies that fail before min is reached and zero-width bodies "
      "(Bol/Eol), whose iterators are finite; ForceProgressIterator yields at most 1+4 items at one position then None forever; "
      "GreedyFixed/ReluctantFixed iterators return None after their last item. TokenIter/AnalyzeIter item bounds, GreedyRepeatIterator "
      "and SequenceIterator are outside.", "DESIGN.md 4 C06")
claim("C07", "Flag clause and two tables only: ReFlags::new(f, dialect) is Ok iff f in [smixq]*(;[gkK]*)? (q only XPath), each flag bit "
      "parsed correctly, else InvalidFlags - all ASCII strings <=3 (4 thorough); get_category_group accepts exactly the 37 XSD category "
      "names (Cs excluded) and returns the right group - all ASCII names <=2; ReCompiler::bracket accepts {a,b} iff digits with a<=b, "
      "{a} and {a,} iff digit, with the right bounds - every text '{'+5 chars; ReCompiler::escape (verbatim slice) accepts exactly the "
      "XSD/XPath escapes and returns the right kind (char, which class and whether complemented, back-reference number) for every "
      "text backslash+6 chars, inside/outside classes; ReCompiler::piece (verbatim slice) accepts every quantifier shape incl. a "
      "reluctant marker after a quantified anchor. Acceptance of whole patterns (balanced groups, class syntax) is outside - the "
      "recursive parser is not executable on symbolic text.", "DESIGN.md 4 C07")
claim("C08", "Search-loop shortcuts and two local soundness conditions only: bare programs with prefix / initial_char_class / "
      "minimum_length / OPT_HASBOL set as ReProgram::new sets them give exactly the oracle answers of their shortcut-free twins "
      "(C01/C02 harnesses), incl. case-blind prefix scan and line seeking; first-set of a literal contains every character its first "
      "char can match (real ICU closure, all x); ReCompiler::no_ambiguity answers false before every repeat that can match empty and, "
      "for reluctant repeats, before the end of the program (is_disjoint stubbed by an arbitrary answer); operators probed beyond "
      "the input end by positional preconditions do not panic. Derivation of the shortcut fields (ReProgram::new, "
      "add_precondition), optimize() and CharacterClass::is_disjoint itself (its 100-iteration scan does not finish under CBMC) "
      "are outside.", "DESIGN.md 4 C08")
claim("C09", "SLICE SCOPE. ReCompiler::parse_character_class and CharacterClassBuilder's union/complement/difference/build, extracted "
      "verbatim on every run, with every set represented by the membership of ONE symbolic probe character (exact for that "
      "character) - so each statement holds for all probes at once: [a], [ab], [a-b] denote exactly those characters (all non-meta "
      "a,b; reversed ranges rejected), with flag i also every case counterpart of every member of a range (ranges <=3 chars); "
      "[\\e] for every escape char e denotes its set, \\S \\D \\W \\I \\C being complements; for all backslash-free group contents "
      "G,H (<=3 / <=2 chars): [^G] = complement of [G] and accepted iff [G] is, [GH] = union; thorough tier: [G-[H]] = [G] minus "
      "[H] for single-character G,H, and escapes inside classes. Outside: the "
      "contents of \\d \\w \\i \\c \\p{..} (ICU data, C10), escapes inside law operands, nesting deeper than one subtraction, "
      "classes under quantifiers/groups, and the real ICU inversion-list builder (replaced by the probe stand-in).", "DESIGN.md 4 C09")
claim("C11", U + "equal_case_blind(a,b) = (a==b or equal simple-lowercase images) for ALL pairs (lower-casing modelled arithmetically), "
      "symmetric, reflexive; the real ICU mapping agrees with the model on all ASCII pairs (quick) and on Latin-1/Greek/Cyrillic/"
      "Deseret one-to-one ranges (thorough); Atom[c1,c2] and BackReference under flag i match position-wise case-blind, without i "
      "identical only; case-blind prefix scan; case-blind first-set contains the literal and its counterpart; case closure of class "
      "members and of every member of a class range at parse time (class-parser slice, g_class_base_i). The subtraction-path "
      "closure gap ([xa-[q]] under i) is a known, natively confirmed defect outside the harness' assumptions.", "DESIGN.md 4 C11")
claim("C12", "Bol/Eol::matches_iter succeed exactly at the positions the statement names for every input <=3 chars over all scalar "
      "values, every position, flag m on/off (incl. no ^ after a final newline); the OPT_HASBOL fast path with newline seeking "
      "agrees with the leftmost-line-start oracle; '.' with/without s as a static class in the search loop. Anchors inside larger "
      "patterns and the construction of the dot class are outside.", "DESIGN.md 4 C12")
claim("C13", U + "Bare Atom[c1,c2] (what a flag-q pattern compiles to): is_match iff the two chars occur contiguously, for ALL chars "
      "incl. metacharacters, case-blind under i; compute_nesting_table is total on every text (analyze on q patterns); the "
      "substitution step appends the replacement verbatim under q for all texts incl. $ and backslash, never rejecting; q accepted "
      "only in the XPath dialect. tokenize/analyze/replace_all as whole calls are outside.", "DESIGN.md 4 C13")
claim("C14", "The whitespace-stripping block of ReCompiler::compile, extracted verbatim from the current source on every run, on EVERY "
      "pattern text <=8 chars (11 thorough) over all scalar values without an unmatched ']': output = input minus TAB/LF/CR/SP at "
      "class depth 0 of the stripped text; whitespace inside classes kept; nothing else removed. That the stripped text is then "
      "compiled like the original is outside.", "DESIGN.md 4 C14")
claim("C15", "The per-match substitution step of ReMatcher::replace (latch + expansion + verbatim branch), extracted verbatim on every "
      "run, for EVERY replacement text <=4 chars (5 thorough) over all scalar values, 0..12 groups each absent or 1 char, one and two "
      "consecutive matches: output follows the $N (single digit for <=9 groups, longest valid number otherwise), $0, \\$, \\\\ rules; "
      "InvalidReplacementString iff a $ lacks a digit or a \\ lacks $ or \\; the simple_replacement latch. The outer scan loop "
      "(copying unmatched text) is outside.", "DESIGN.md 4 C15")
claim("C17", "Dialect gates at unit level: ReFlags::new rejects q iff the dialect is XSD and otherwise parses flags identically (all "
      "ASCII strings <=3, 4 thorough); ReCompiler::escape (verbatim slice) rejects \\$ and back-references under XSD everywhere, "
      "classes included, and agrees with XPath on every other escape; ReCompiler::piece (verbatim slice) rejects every reluctant "
      "quantifier under XSD. The gates in parse_expr / parse_terminal / parse_atom ((?:, ^ and $ as ordinary characters) and the "
      "agreement of both dialects on whole patterns are outside.", "DESIGN.md 4 C17")
claim("C19", U + "BackReference::matches_iter yields pos+(e-s) iff the input at pos repeats input[s..e] (position-wise case-blind under "
      "i), pos for an empty capture and pos for a group that has not participated, for every recorded span, input <=3 chars (4 "
      "thorough) over all scalar values, every position; a bare Capture records its span in both back-reference arrays; the arrays "
      "are fresh for every match attempt whatever an earlier search left behind, and describe the activation that yielded when one "
      "group is active twice; the multi-digit \\N rule (longest number not exceeding the groups opened so far, group closed, not in "
      "a class, remaining digits literal) in ReCompiler::escape (verbatim slice). Captures after backtracking through alternatives "
      "and loops are outside.", "DESIGN.md 4 C19")
claim("C20", "Between single-operator programs only: GreedyFixed(X,1,1) = X, UnambiguousRepeat(X,n,n) = GreedyFixed(X,n,n), "
      "ReluctantFixed and GreedyFixed agree on is_match and match start, one-char class {c} = literal c - each side equals the same "
      "closed-form oracle for all c and all inputs in bound; GreedyFixed with a 2-char body never yields below its minimum; which "
      "operator piece() builds for r?, r*, r+, r{n,m} and their reluctant forms (verbatim slice, abstract term with symbolic static "
      "facts): bounds, greediness, fixed/variable family, r{n,m} on nullable r keeps m, zero-length r, quantified anchors. Sequence "
      "flattening, alternation laws and capturing->non-capturing are outside.", "DESIGN.md 4 C20")

na("C04", "the replace/tokenize/analyze scan loops build a String/Vec per item from symbolic-length slices of the haystack; Kani 0.68 "
   "answers with spurious pointer failures or times out (probes P14, P27) - no sound solver verdict obtainable; the substitution "
   "step of replace is decided under C15")
na("C10", "finite Unicode data diff with no symbolic dimension beyond one code point; materialising \\p{..}, \\d, \\w iterates ICU tries "
   "(out of CBMC's reach) and the oracle would be a second Unicode database; the category-name mapping is decided under C07")
na("C16", "nullability is computed by running the whole compiled matcher on the empty string (compiler + Sequence: probes P1/P3); the "
   "three API guards are field tests with no symbolic content")
na("C18", "schedules: Kani does not model threads; histories: cross-call state exists only inside one ReMatcher - its reset is decided "
   "under C03/C19 - and in the History memo of greedy variable Repeat (out of reach, P6)")
