use regexml::Regex;
use std::panic::catch_unwind;
fn t(name: &str, f: impl FnOnce() -> String + std::panic::UnwindSafe) {
    match catch_unwind(f) { Ok(s) => println!("{name}: {s}"), Err(_) => println!("{name}: PANIC") }
}
fn main() {
    std::panic::set_hook(Box::new(|_| {}));
    t("D1 q-paren analyze", || { let r = Regex::xpath("(", "q").unwrap(); format!("{:?}", r.analyze("a(b").unwrap().collect::<Vec<_>>()) });
    t("D1b q-close-paren analyze", || { let r = Regex::xpath(")", "q").unwrap(); format!("{:?}", r.analyze("a)b").unwrap().collect::<Vec<_>>()) });
    t("D2 a(b?)c on ac", || { let r = Regex::xpath("a(b?)c", "").unwrap(); format!("{:?}", r.analyze("ac").unwrap().collect::<Vec<_>>()) });
    t("D3 huge bound", || { let r = Regex::xpath("(?:ab){1,18446744073709551614}", "").unwrap(); format!("{:?}", r.is_match("abab")) });
    t("D5 \\d*1 i on 1", || { let r = Regex::xpath("\\d*1", "i").unwrap(); format!("{:?} (no-i: {:?})", r.is_match("1"), Regex::xpath("\\d*1", "").unwrap().is_match("1")) });
    t("D6 backref unset", || { format!("{:?} vs {:?}", Regex::xpath("^(?:b|(a))\\1$", "").unwrap().is_match("b"), Regex::xpath("^(?:(a)|b)\\1$", "").unwrap().is_match("b")) });
    t("D7 formfeed x", || { format!("{:?}", Regex::xpath("a\u{c}b", "x").unwrap().is_match("a\u{c}b")) });
    t("D8 [xa-[q]] i on A", || { format!("{:?} / [xa] i on A: {:?}", Regex::xpath("^[xa-[q]]$", "i").unwrap().is_match("A"), Regex::xpath("^[xa]$", "i").unwrap().is_match("A")) });
    t("D9 ^*?a", || { format!("{:?}", Regex::xpath("^*?a", "").map(|_| ())) });
}
