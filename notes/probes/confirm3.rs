use regexml::Regex;
fn main() {
    let r = Regex::xpath("^(?:a|bb)*?a$", "").unwrap();
    println!("D14 ^(?:a|bb)*?a$ on 'a': {:?} (expected true)", r.is_match("a"));
    let r = Regex::xpath("(?:a|bb)*?a", "").unwrap();
    println!("D14b (?:a|bb)*?a on 'aa' replace: {:?} (expected [a][a])", r.replace_all("aa", "[$0]"));
    let r = Regex::xpath("^(?:a|bb)*a$", "").unwrap();
    println!("greedy ^(?:a|bb)*a$ on 'a': {:?}", r.is_match("a"));
}
