#[cfg(kani)]
mod h {
    use regexml::Regex;

    pub fn fill_stub(_dest: &mut [u8]) -> Result<(), getrandom::Error> {
        Ok(())
    }

    fn sym_ascii(n: usize) -> String {
        let mut s = String::new();
        let len: usize = kani::any();
        kani::assume(len <= n);
        for i in 0..n {
            if i < len {
                let b: u8 = kani::any();
                kani::assume(b < 128);
                s.push(b as char);
            }
        }
        s
    }

    #[kani::proof]
    #[kani::stub(getrandom::fill, fill_stub)]
    #[kani::unwind(8)]
    fn pa_compile_a() {
        let re = Regex::xpath("a", "");
        assert!(re.is_ok());
    }

    #[kani::proof]
    #[kani::stub(getrandom::fill, fill_stub)]
    #[kani::unwind(8)]
    fn pc_concrete_astarb() {
        let re = Regex::xpath("a*b", "").unwrap();
        assert!(re.is_match("aab"));
    }

    #[kani::proof]
    #[kani::stub(getrandom::fill, fill_stub)]
    #[kani::unwind(8)]
    fn pd_sym_ab() {
        let re = Regex::xpath("ab", "").unwrap();
        let s = sym_ascii(2);
        let m = re.is_match(&s);
        let b = s.as_bytes();
        assert_eq!(m, b.len() == 2 && b[0] == b'a' && b[1] == b'b');
    }

    #[kani::proof]
    #[kani::stub(getrandom::fill, fill_stub)]
    #[kani::unwind(8)]
    fn pe_sym_astarb() {
        let re = Regex::xpath("a*b", "").unwrap();
        let s = sym_ascii(3);
        let m = re.is_match(&s);
        let b = s.as_bytes();
        let mut has_b = false;
        for i in 0..3 { if i < b.len() && b[i] == b'b' { has_b = true; } }
        assert_eq!(m, has_b);
    }
}
