use crate::op_atom::Atom;
use crate::op_capture::Capture;
use crate::op_end_program::EndProgram;
use crate::op_sequence::Sequence;
use crate::op_greedy_fixed::GreedyFixed;
use crate::operation::{Operation, OperationControl};
use crate::re_flags::{Language, ReFlags};
use crate::re_matcher::ReMatcher;
use crate::re_program::ReProgram;

pub fn fill_stub(_dest: &mut [u8]) -> Result<(), getrandom::Error> {
    Ok(())
}

fn prog(op: Operation, minlen: usize) -> ReProgram {
    ReProgram {
        pattern: Vec::new(),
        operation: op,
        flags: ReFlags::new("", Language::XPath).unwrap(),
        prefix: None,
        initial_char_class: None,
        preconditions: Vec::new(),
        minimum_length: minlen,
        optimization_flags: 0,
        max_parens: Some(1),
        backtracking_limit: None,
    }
}

fn sym_input<'a>(m: &mut ReMatcher<'a>, n: usize) {
    let len: usize = kani::any();
    kani::assume(len <= n);
    let mut v = Vec::with_capacity(n);
    for i in 0..n {
        if i < len {
            let c: char = kani::any();
            v.push(c);
        }
    }
    m.search = v;
}

// E0: only construct matcher
#[kani::proof]
#[kani::stub(getrandom::fill, fill_stub)]
#[kani::unwind(6)]
fn e0_matcher_new() {
    let p = prog(Operation::from(Atom::new(vec!['a'])), 1);
    let m = ReMatcher::new(&p, "");
    assert!(m.search.is_empty());
}

// E1: bare atom
#[kani::proof]
#[kani::stub(getrandom::fill, fill_stub)]
#[kani::unwind(6)]
fn e1_atom() {
    let p = prog(Operation::from(Atom::new(vec!['a'])), 1);
    let mut m = ReMatcher::new(&p, "");
    sym_input(&mut m, 2);
    let r = m.is_match();
    let mut has = false;
    for i in 0..2 { if i < m.search.len() && m.search[i] == 'a' { has = true; } }
    assert_eq!(r, has);
}

// E2: capture(box atom): tag read through Box
#[kani::proof]
#[kani::unwind(6)]
fn e2_box_tag() {
    let op = Operation::from(Capture::new(1, Operation::from(Atom::new(vec!['a']))));
    assert!(!op.contains_capturing_expressions());
    assert_eq!(op.get_match_length(), Some(1));
}

// E3: sequence vec tag read
#[kani::proof]
#[kani::unwind(6)]
fn e3_vec_tag() {
    let op = Operation::from(Sequence::new(vec![
        Operation::from(Atom::new(vec!['a'])),
        Operation::from(EndProgram),
    ]));
    assert!(!op.contains_capturing_expressions());
    assert_eq!(op.get_match_length(), Some(1));
}

// E4: greedy fixed over atom, bare (Box child)
#[kani::proof]
#[kani::stub(getrandom::fill, fill_stub)]
#[kani::unwind(6)]
fn e4_greedyfixed() {
    let p = prog(Operation::from(GreedyFixed::new(Operation::from(Atom::new(vec!['a'])), 1, usize::MAX, 1)), 1);
    let mut m = ReMatcher::new(&p, "");
    sym_input(&mut m, 2);
    let r = m.is_match();
    let mut has = false;
    for i in 0..2 { if i < m.search.len() && m.search[i] == 'a' { has = true; } }
    assert_eq!(r, has);
}

#[kani::proof]
#[kani::unwind(6)]
fn e5_vec_macro_index() {
    let v = vec![Operation::from(Atom::new(vec!['a'])), Operation::from(EndProgram)];
    assert!(matches!(v[1], Operation::EndProgram(_)));
    assert!(matches!(v[0], Operation::Atom(_)));
}

#[kani::proof]
#[kani::unwind(6)]
fn e6_vec_push_index() {
    let mut v = Vec::with_capacity(2);
    v.push(Operation::from(Atom::new(vec!['a'])));
    v.push(Operation::from(EndProgram));
    assert!(matches!(v[1], Operation::EndProgram(_)));
    assert!(matches!(v[0], Operation::Atom(_)));
}

#[kani::proof]
#[kani::unwind(6)]
fn e7_vec_push_iter() {
    let mut v = Vec::with_capacity(2);
    v.push(Operation::from(Atom::new(vec!['a'])));
    v.push(Operation::from(EndProgram));
    let mut n = 0;
    for o in &v { n += o.get_match_length().unwrap(); }
    assert_eq!(n, 1);
}

#[kani::proof]
#[kani::unwind(6)]
fn e8_vec_push_seq() {
    let mut v = Vec::with_capacity(2);
    v.push(Operation::from(Atom::new(vec!['a'])));
    v.push(Operation::from(EndProgram));
    let op = Operation::from(Sequence::new(v));
    assert!(!op.contains_capturing_expressions());
    assert_eq!(op.get_match_length(), Some(1));
}

use crate::op_unambiguous_repeat::UnambiguousRepeat;
use crate::op_repeat::Repeat;
use crate::op_choice::Choice;

// a*b  with unambiguous repeat
#[kani::proof]
#[kani::stub(getrandom::fill, fill_stub)]
#[kani::unwind(6)]
fn k1_astarb() {
    let op = Operation::from(Sequence::new(vec![
        Operation::from(UnambiguousRepeat::new(Operation::from(Atom::new(vec!['a'])), 0, usize::MAX)),
        Operation::from(Atom::new(vec!['b'])),
        Operation::from(EndProgram),
    ]));
    let p = prog(op, 1);
    let mut m = ReMatcher::new(&p, "");
    sym_input(&mut m, 3);
    let r = m.is_match();
    let mut has_b = false;
    for i in 0..3 { if i < m.search.len() && m.search[i] == 'b' { has_b = true; } }
    assert_eq!(r, has_b);
    std::mem::forget(m);
    std::mem::forget(p);
}

// (?:a|ab)*c   general Repeat over a choice
#[kani::proof]
#[kani::stub(getrandom::fill, fill_stub)]
#[kani::unwind(6)]
fn k2_repeat_choice() {
    let ch = Operation::from(Choice::new(vec![
        Operation::from(Atom::new(vec!['a'])),
        Operation::from(Atom::new(vec!['a', 'b'])),
    ]));
    let op = Operation::from(Sequence::new(vec![
        Operation::from(Repeat::new(ch, 0, usize::MAX, true)),
        Operation::from(Atom::new(vec!['c'])),
        Operation::from(EndProgram),
    ]));
    let p = prog(op, 1);
    let mut m = ReMatcher::new(&p, "");
    sym_input(&mut m, 3);
    let r = m.is_match();
    let mut has_c = false;
    for i in 0..3 { if i < m.search.len() && m.search[i] == 'c' { has_c = true; } }
    assert_eq!(r, has_c);
    std::mem::forget(m);
    std::mem::forget(p);
}

#[kani::proof]
#[kani::unwind(6)]
fn k3_three_ops_tag() {
    let op = Operation::from(Sequence::new(vec![
        Operation::from(UnambiguousRepeat::new(Operation::from(Atom::new(vec!['a'])), 0, usize::MAX)),
        Operation::from(Atom::new(vec!['b'])),
        Operation::from(EndProgram),
    ]));
    assert!(!op.contains_capturing_expressions());
    let p = prog(op, 1);
    assert!(!p.operation.contains_capturing_expressions());
    std::mem::forget(p);
}

#[kani::proof]
#[kani::stub(getrandom::fill, fill_stub)]
#[kani::unwind(6)]
fn k4_concrete_input() {
    let op = Operation::from(Sequence::new(vec![
        Operation::from(UnambiguousRepeat::new(Operation::from(Atom::new(vec!['a'])), 0, usize::MAX)),
        Operation::from(Atom::new(vec!['b'])),
        Operation::from(EndProgram),
    ]));
    let p = prog(op, 1);
    let mut m = ReMatcher::new(&p, "");
    m.search = vec!['a', 'a', 'b'];
    let r = m.is_match();
    assert!(r);
    std::mem::forget(m);
    std::mem::forget(p);
}

#[kani::proof]
#[kani::stub(getrandom::fill, fill_stub)]
#[kani::unwind(6)]
fn k5_matcher_then_tag() {
    let op = Operation::from(Sequence::new(vec![
        Operation::from(UnambiguousRepeat::new(Operation::from(Atom::new(vec!['a'])), 0, usize::MAX)),
        Operation::from(Atom::new(vec!['b'])),
        Operation::from(EndProgram),
    ]));
    let p = prog(op, 1);
    let m = ReMatcher::new(&p, "");
    assert!(!m.program.operation.contains_capturing_expressions());
    std::mem::forget(m);
    std::mem::forget(p);
}

#[kani::proof]
#[kani::unwind(6)]
fn m1_three_flat() {
    let op = Operation::from(Sequence::new(vec![
        Operation::from(Atom::new(vec!['a'])),
        Operation::from(Atom::new(vec!['b'])),
        Operation::from(EndProgram),
    ]));
    assert!(!op.contains_capturing_expressions());
    std::mem::forget(op);
}

#[kani::proof]
#[kani::unwind(6)]
fn m2_two_with_box() {
    let op = Operation::from(Sequence::new(vec![
        Operation::from(UnambiguousRepeat::new(Operation::from(Atom::new(vec!['a'])), 0, usize::MAX)),
        Operation::from(EndProgram),
    ]));
    assert!(!op.contains_capturing_expressions());
    std::mem::forget(op);
}

#[kani::proof]
#[kani::unwind(6)]
fn m3_size() {
    assert_eq!(std::mem::size_of::<Operation>(), 40);
}

#[kani::proof]
#[kani::unwind(6)]
fn m4_boxed_array() {
    let arr: Box<[Operation; 2]> = Box::new([
        Operation::from(UnambiguousRepeat::new(Operation::from(Atom::new(vec!['a'])), 0, usize::MAX)),
        Operation::from(EndProgram),
    ]);
    let b: Box<[Operation]> = arr;
    let op = Operation::from(Sequence::new(b.into_vec()));
    assert!(!op.contains_capturing_expressions());
    std::mem::forget(op);
}

#[kani::proof]
#[kani::unwind(6)]
fn m5_push() {
    let mut v = Vec::with_capacity(2);
    v.push(Operation::from(UnambiguousRepeat::new(Operation::from(Atom::new(vec!['a'])), 0, usize::MAX)));
    v.push(Operation::from(EndProgram));
    let op = Operation::from(Sequence::new(v));
    assert!(!op.contains_capturing_expressions());
    std::mem::forget(op);
}

#[kani::proof]
#[kani::unwind(6)]
fn m6_one_elem() {
    let op = Operation::from(Sequence::new(vec![
        Operation::from(UnambiguousRepeat::new(Operation::from(Atom::new(vec!['a'])), 0, usize::MAX)),
    ]));
    assert!(!op.contains_capturing_expressions());
    std::mem::forget(op);
}

#[kani::proof]
#[kani::unwind(6)]
fn m7_box_in_vec() {
    let v = vec![Box::new(5u32)];
    assert!(*v[0] == 5);
}

#[kani::proof]
#[kani::unwind(6)]
fn m8_op_box_in_vec_direct() {
    let v = vec![Box::new(Operation::from(EndProgram))];
    assert!(matches!(*v[0], Operation::EndProgram(_)));
    assert!(!v[0].contains_capturing_expressions());
    std::mem::forget(v);
}

#[kani::proof]
#[kani::unwind(6)]
fn m9_unamb_in_vec_fieldread() {
    let v = vec![UnambiguousRepeat::new(Operation::from(EndProgram), 0, 1)];
    assert!(!v[0].contains_capturing_expressions());
    std::mem::forget(v);
}

#[kani::proof]
#[kani::unwind(6)]
fn m10_overwrite_payload() {
    let mut v = vec![
        Operation::from(UnambiguousRepeat::new(Operation::from(EndProgram), 0, 0)),
    ];
    if let Operation::UnambiguousRepeat(u) = &mut v[0] {
        let old = std::mem::replace(u, UnambiguousRepeat::new(Operation::from(Atom::new(vec!['a'])), 0, usize::MAX));
        std::mem::forget(old);
    }
    let op = Operation::from(Sequence::new(v));
    assert!(!op.contains_capturing_expressions());
    assert_eq!(op.get_minimum_match_length(), 0);
    std::mem::forget(op);
}

fn set_atom(slot: &mut Operation, chars: Vec<char>) {
    if let Operation::Atom(a) = slot {
        let old = std::mem::replace(a, Atom::new(chars));
        std::mem::forget(old);
    }
}
fn set_unamb(slot: &mut Operation, child: Operation, min: usize, max: usize) {
    if let Operation::UnambiguousRepeat(u) = slot {
        let old = std::mem::replace(u, UnambiguousRepeat::new(child, min, max));
        std::mem::forget(old);
    }
}

// a*b built with concrete-friendly construction
#[kani::proof]
#[kani::stub(getrandom::fill, fill_stub)]
#[kani::unwind(6)]
fn n1_astarb() {
    let mut v = vec![
        Operation::from(UnambiguousRepeat::new(Operation::from(EndProgram), 0, 0)),
        Operation::from(Atom::new(Vec::new())),
        Operation::from(EndProgram),
    ];
    set_unamb(&mut v[0], Operation::from(Atom::new(vec!['a'])), 0, usize::MAX);
    set_atom(&mut v[1], vec!['b']);
    let op = Operation::from(Sequence::new(v));
    let p = prog(op, 1);
    let mut m = ReMatcher::new(&p, "");
    sym_input(&mut m, 3);
    let r = m.is_match();
    let mut has_b = false;
    for i in 0..3 { if i < m.search.len() && m.search[i] == 'b' { has_b = true; } }
    assert_eq!(r, has_b);
    std::mem::forget(m);
    std::mem::forget(p);
}

fn build_astarb() -> Operation {
    let mut v = vec![
        Operation::from(UnambiguousRepeat::new(Operation::from(EndProgram), 0, 0)),
        Operation::from(Atom::new(Vec::new())),
        Operation::from(EndProgram),
    ];
    set_unamb(&mut v[0], Operation::from(Atom::new(vec!['a'])), 0, usize::MAX);
    set_atom(&mut v[1], vec!['b']);
    Operation::from(Sequence::new(v))
}

#[kani::proof]
#[kani::unwind(6)]
fn n2_build_only() {
    let op = build_astarb();
    assert!(!op.contains_capturing_expressions());
    std::mem::forget(op);
}

#[kani::proof]
#[kani::unwind(6)]
fn n3_build_prog() {
    let p = prog(build_astarb(), 1);
    assert!(!p.operation.contains_capturing_expressions());
    std::mem::forget(p);
}

#[kani::proof]
#[kani::stub(getrandom::fill, fill_stub)]
#[kani::unwind(6)]
fn n4_build_prog_matcher() {
    let p = prog(build_astarb(), 1);
    let m = ReMatcher::new(&p, "");
    assert!(!m.program.operation.contains_capturing_expressions());
    std::mem::forget(m);
    std::mem::forget(p);
}

#[kani::proof]
#[kani::stub(getrandom::fill, fill_stub)]
#[kani::unwind(6)]
fn n5_concrete_input() {
    let p = prog(build_astarb(), 1);
    let mut m = ReMatcher::new(&p, "");
    m.search = vec!['a', 'a', 'b'];
    assert!(m.is_match());
    std::mem::forget(m);
    std::mem::forget(p);
}

#[kani::proof]
#[kani::stub(getrandom::fill, fill_stub)]
#[kani::unwind(6)]
fn n6_sym1() {
    let p = prog(build_astarb(), 1);
    let mut m = ReMatcher::new(&p, "");
    let c: char = kani::any();
    m.search = vec![c];
    assert_eq!(m.is_match(), c == 'b');
    std::mem::forget(m);
    std::mem::forget(p);
}

#[kani::proof]
#[kani::stub(getrandom::fill, fill_stub)]
#[kani::unwind(6)]
fn n7_match_at_only() {
    let p = prog(build_astarb(), 1);
    let mut m = ReMatcher::new(&p, "");
    let c: char = kani::any();
    m.search = vec![c];
    assert_eq!(m.match_at(0, false), c == 'b');
    std::mem::forget(m);
    std::mem::forget(p);
}

#[kani::proof]
#[kani::stub(getrandom::fill, fill_stub)]
#[kani::unwind(4)]
fn n8_sym1_unwind4() {
    let p = prog(build_astarb(), 1);
    let mut m = ReMatcher::new(&p, "");
    let c: char = kani::any();
    m.search = vec![c];
    assert_eq!(m.is_match(), c == 'b');
    std::mem::forget(m);
    std::mem::forget(p);
}

fn build_a_end() -> Operation {
    let mut v = vec![
        Operation::from(Atom::new(Vec::new())),
        Operation::from(EndProgram),
    ];
    set_atom(&mut v[0], vec!['a']);
    Operation::from(Sequence::new(v))
}

#[kani::proof]
#[kani::stub(getrandom::fill, fill_stub)]
#[kani::unwind(4)]
fn n9_seq_atom_end_sym2() {
    let p = prog(build_a_end(), 1);
    let mut m = ReMatcher::new(&p, "");
    sym_input(&mut m, 2);
    let r = m.is_match();
    let mut has = false;
    for i in 0..2 { if i < m.search.len() && m.search[i] == 'a' { has = true; } }
    assert_eq!(r, has);
    std::mem::forget(m);
    std::mem::forget(p);
}
