// Probe artefact (see README.md): P22 strip slice with a bounded stand-in Vec,
// P23 replacement-expansion slice, P24 back-reference unit, P25 nesting table.
// Compiled as `#[cfg(kani)] mod kh4;` inside a scratch copy of regexml with
// AnalyzeIter::compute_nesting_table and ReMatcher::state widened to pub(crate).
#![allow(unused)]
use crate::analyze_string::AnalyzeIter;
use crate::op_back_reference::BackReference;
use crate::op_bol::Bol;
use crate::operation::{Operation, OperationControl};
use crate::re_flags::{Language, ReFlags};
use crate::re_matcher::ReMatcher;
use crate::re_program::{ReProgram, OPT_HASBACKREFS};

pub fn fill_stub(_dest: &mut [u8]) -> Result<(), getrandom::Error> { Ok(()) }
pub fn format_stub(_args: std::fmt::Arguments<'_>) -> String { String::new() }

fn prog(op: Operation, flags: &str, minlen: usize) -> ReProgram {
    ReProgram {
        pattern: Vec::new(), operation: op,
        flags: ReFlags::new(flags, Language::XPath).unwrap(),
        prefix: None, initial_char_class: None, preconditions: Vec::new(),
        minimum_length: minlen, optimization_flags: 0, max_parens: Some(1),
        backtracking_limit: None,
    }
}

mod slice_env {
    #[derive(Clone, Copy)]
    pub struct BVec { pub a: [char; 24], pub n: usize }
    impl BVec {
        pub fn new() -> Self { BVec { a: ['\0'; 24], n: 0 } }
        pub fn push(&mut self, c: char) { assert!(self.n < 24); self.a[self.n] = c; self.n += 1; }
        pub fn len(&self) -> usize { self.n }
        pub fn extend(&mut self, s: &[char]) { for c in s { self.push(*c); } }
        pub fn get(&self, i: usize) -> char { self.a[i] }
    }
}

// P22: the block of re_compiler.rs:967-994 pasted verbatim; `Vec` shadowed.
mod strip_slice {
    use super::slice_env::BVec;
    type Vec = BVec;
    pub struct SelfView { pub pattern: std::vec::Vec<char> }
    impl SelfView {
        pub fn run(&self) -> BVec {
                let mut sb = Vec::new();
                let mut nesting = 0;
                let mut escaped = false;
                for ch in self.pattern.iter() {
                    match ch {
                        '\\' if !escaped => {
                            escaped = true;
                            sb.push(*ch);
                        }
                        '[' if !escaped => {
                            nesting += 1;
                            sb.push(*ch);
                        }
                        ']' if !escaped => {
                            nesting -= 1;
                            sb.push(*ch);
                        }
                        _ => {
                            // TODO: wrong whitespace
                            if nesting == 0 && ch.is_ascii_whitespace() {
                                // no action
                            } else {
                                escaped = false;
                                sb.push(*ch);
                            }
                        }
                    }
                }
                sb
        }
    }
}

#[kani::proof]
#[kani::unwind(6)]
fn s1_strip_slice() {
    let len: usize = kani::any();
    kani::assume(len <= 4);
    let mut v = Vec::with_capacity(4);
    for i in 0..4 { if i < len { let c: char = kani::any(); v.push(c); } }
    let s = strip_slice::SelfView { pattern: v };
    let out = s.run();
    // NOTE: this probe's reference kept whitespace after a backslash, which is
    // NOT what the statement says; the real reference must remove it.
    let mut k = 0;
    let mut depth: i32 = 0;
    let mut esc = false;
    for i in 0..4 {
        if i < len {
            let c = s.pattern[i];
            let mut keep = true;
            if esc { esc = false; }
            else if c == '\\' { esc = true; }
            else if c == '[' { depth += 1; }
            else if c == ']' { depth -= 1; }
            else if depth == 0 && (c == '\t' || c == '\n' || c == '\r' || c == ' ') { keep = false; }
            if keep {
                assert!(k < out.len() && out.get(k) == c);
                k += 1;
            }
        }
    }
    assert!(k == out.len());
    kani::cover!(len == 4, "len4");
}

// P24: back-reference unit
#[kani::proof]
#[kani::stub(getrandom::fill, fill_stub)]
#[kani::unwind(6)]
fn s5_backref() {
    let mut p = prog(Operation::from(Bol), "", 0);
    p.optimization_flags = OPT_HASBACKREFS;
    p.max_parens = Some(2);
    let mut m = ReMatcher::new(&p, "");
    let len: usize = kani::any();
    kani::assume(len <= 3);
    let mut v = Vec::with_capacity(3);
    for i in 0..3 { if i < len { let c: char = kani::any(); v.push(c); } }
    m.search = v;
    let s: usize = kani::any();
    let e: usize = kani::any();
    kani::assume(s <= e && e <= len);
    let pos: usize = kani::any();
    kani::assume(pos <= len);
    {
        let mut st = m.state.borrow_mut();
        st.start_backref = vec![None, Some(s)];
        st.end_backref = vec![None, Some(e)];
    }
    let br = Operation::from(BackReference::new(1));
    let got = br.matches_iter(&m, pos).next();
    let l = e - s;
    let mut want = pos + l <= len;
    for k in 0..3 { if k < l && want { if m.search[pos + k] != m.search[s + k] { want = false; } } }
    assert_eq!(got, if want { Some(pos + l) } else { None });
    kani::cover!(want && l == 2, "copy2");
    std::mem::forget(m);
}

// P25: nesting table on 2 symbolic chars (finds D1)
#[kani::proof]
#[kani::stub(getrandom::fill, fill_stub)]
#[kani::unwind(4)]
fn t2_nesting_table2() {
    let len: usize = kani::any();
    kani::assume(len <= 2);
    let mut v = Vec::with_capacity(2);
    for i in 0..2 { if i < len { let c: char = kani::any(); v.push(c); } }
    let t = AnalyzeIter::compute_nesting_table(&v);
    std::mem::forget(t);
}

// P23 (replacement-expansion slice) had the same shape as strip_slice: the
// block of re_matcher.rs:249-333 pasted into
//   fn run(&self, replacement:&[char], result:&mut BVec, simple_replacement:&mut bool) -> Result<(),Error>
// with `self.program.max_parens` and `self.get_paren(n)` provided by a view
// struct; omitted here for brevity (it is regenerated mechanically by the
// framework's slice extractor).
