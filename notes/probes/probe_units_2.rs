use crate::character_class::CharacterClass;
use crate::op_atom::Atom;
use crate::op_bol::Bol;
use crate::op_repeat::ReluctantRepeatIterator;
use crate::operation::{Operation, OperationControl};
use crate::re_compiler::{ReCompiler, NODE_TOPLEVEL};
use crate::re_flags::{Language, ReFlags};
use crate::re_matcher::ReMatcher;
use crate::re_program::ReProgram;
use icu_collections::codepointinvlist::CodePointInversionListBuilder;

pub fn fill_stub(_dest: &mut [u8]) -> Result<(), getrandom::Error> {
    Ok(())
}
pub fn format_stub(_args: std::fmt::Arguments<'_>) -> String {
    String::new()
}
pub fn empty_builder() -> CodePointInversionListBuilder {
    CodePointInversionListBuilder::new()
}

fn prog(op: Operation, flags: &str, minlen: usize) -> ReProgram {
    ReProgram {
        pattern: Vec::new(),
        operation: op,
        flags: ReFlags::new(flags, Language::XPath).unwrap(),
        prefix: None,
        initial_char_class: None,
        preconditions: Vec::new(),
        minimum_length: minlen,
        optimization_flags: 0,
        max_parens: Some(1),
        backtracking_limit: None,
    }
}

// V1: parse-only on 2 symbolic ASCII chars: no panic, never Internal
#[kani::proof]
#[kani::stub(getrandom::fill, fill_stub)]
#[kani::stub(alloc::fmt::format, format_stub)]
#[kani::stub(crate::category::decimal_number, empty_builder)]
#[kani::stub(crate::category::word_char, empty_builder)]
#[kani::stub(crate::category::name_start_char, empty_builder)]
#[kani::stub(crate::category::name_char, empty_builder)]
#[kani::unwind(5)]
fn v1_parse_only_sym2() {
    let a: u8 = kani::any();
    let b: u8 = kani::any();
    kani::assume(a < 128 && b < 128);
    let pattern = vec![a as char, b as char];
    let flags = ReFlags::new("", Language::XPath).unwrap();
    let mut c = ReCompiler::new(pattern, flags);
    let r = c.parse_expr(&[NODE_TOPLEVEL]);
    if let Err(e) = &r {
        assert!(*e != crate::Error::Internal);
    }
    std::mem::forget(r);
    std::mem::forget(c);
}

// V2: bracket() on '{' + 3 symbolic chars
#[kani::proof]
#[kani::stub(getrandom::fill, fill_stub)]
#[kani::stub(alloc::fmt::format, format_stub)]
#[kani::unwind(6)]
fn v2_bracket() {
    let c1: char = kani::any();
    let c2: char = kani::any();
    let c3: char = kani::any();
    let pattern = vec!['{', c1, c2, c3];
    let flags = ReFlags::new("", Language::XPath).unwrap();
    let mut c = ReCompiler::new(pattern, flags);
    let r = c.bracket();
    let d = |x: char| x.is_ascii_digit();
    // accepted forms within 3 chars after '{':  d}  dd}  d,}   (d,d} needs 4)
    let ok = (d(c1) && c2 == '}') || (d(c1) && d(c2) && c3 == '}') || (d(c1) && c2 == ',' && c3 == '}');
    assert_eq!(r.is_ok(), ok);
    if d(c1) && c2 == '}' {
        assert_eq!(c.bracket_min, (c1 as usize) - 48);
        assert_eq!(c.bracket_max, c.bracket_min);
        assert_eq!(c.idx, 3);
    }
    std::mem::forget(c);
}

// V4: concrete class expression, symbolic probe char
#[kani::proof]
#[kani::stub(getrandom::fill, fill_stub)]
#[kani::stub(alloc::fmt::format, format_stub)]
#[kani::unwind(12)]
fn v4_class_concrete() {
    let pattern: Vec<char> = "[a-f\\s-[c-d]]".chars().collect();
    let flags = ReFlags::new("", Language::XPath).unwrap();
    let mut c = ReCompiler::new(pattern, flags);
    let b = c.parse_character_class().unwrap();
    let cc = b.build();
    let x: char = kani::any();
    let want = (('a'..='f').contains(&x) || x == ' ' || x == '\t' || x == '\n' || x == '\r') && !('c'..='d').contains(&x);
    assert_eq!(cc.contains(x), want);
    std::mem::forget(cc);
    std::mem::forget(c);
}

// V5: first-set over-approximation under case-blind matching (ASCII)
#[kani::proof]
#[kani::stub(getrandom::fill, fill_stub)]
#[kani::unwind(6)]
fn v5_firstset_caseblind() {
    let p = prog(Operation::from(Bol), "i", 0);
    let m = ReMatcher::new(&p, "");
    let c: char = kani::any();
    let x: char = kani::any();
    kani::assume((c as u32) < 128 && (x as u32) < 128);
    let atom = Atom::new(vec![c]);
    let fs: CharacterClass = atom.get_initial_character_class(true);
    if m.equal_case_blind(x, c) {
        assert!(fs.contains(x));
    }
    std::mem::forget(fs);
    std::mem::forget(m);
}

// V6: sliced x-flag stripper (body copied verbatim from compile())
struct Strip { pattern: Vec<char> }
impl Strip {
    fn run(&self) -> Vec<char> {
                let mut sb = Vec::new();
                let mut nesting = 0;
                let mut escaped = false;
                for ch in self.pattern.iter() {
                    match ch {
                        '\\' if !escaped => {
                            escaped = true;
                            sb.push(*ch);
                        }
                        '[' if !escaped => {
                            nesting += 1;
                            sb.push(*ch);
                        }
                        ']' if !escaped => {
                            nesting -= 1;
                            sb.push(*ch);
                        }
                        _ => {
                            // TODO: wrong whitespace
                            if nesting == 0 && ch.is_ascii_whitespace() {
                                // no action
                            } else {
                                escaped = false;
                                sb.push(*ch);
                            }
                        }
                    }
                }
                sb
    }
}

#[kani::proof]
#[kani::unwind(6)]
fn v6_strip() {
    let len: usize = kani::any();
    kani::assume(len <= 4);
    let mut v = Vec::with_capacity(4);
    for i in 0..4 { if i < len { let c: char = kani::any(); kani::assume(c != '[' && c != ']' && c != '\\'); v.push(c); } }
    let s = Strip { pattern: v };
    let out = s.run();
    // reference: outside classes, remove exactly U+9 U+A U+D U+20
    let mut k = 0;
    for i in 0..4 {
        if i < len {
            let c = s.pattern[i];
            if !(c == '\t' || c == '\n' || c == '\r' || c == ' ') {
                assert!(k < out.len() && out[k] == c);
                k += 1;
            }
        }
    }
    assert_eq!(k, out.len());
}

// V7: reluctant variable repeat iterator driven directly: every next() terminates
#[kani::proof]
#[kani::stub(getrandom::fill, fill_stub)]
#[kani::unwind(6)]
fn v7_reluctant_direct() {
    let min: usize = kani::any();
    kani::assume(min <= 2);
    let child = Operation::from(Atom::new(vec!['a']));
    let p = prog(Operation::from(Bol), "", 0);
    let mut m = ReMatcher::new(&p, "");
    let c: char = kani::any();
    m.search = vec![c];
    let mut it = ReluctantRepeatIterator::new(&m, &child, 0, min, usize::MAX);
    let _ = it.next();
    std::mem::forget(m);
}
