use crate::analyze_string::AnalyzeIter;
use crate::character_class::CharacterClass;
use crate::op_atom::Atom;
use crate::op_back_reference::BackReference;
use crate::op_bol::Bol;
use crate::op_character_class::CharClass;
use crate::op_eol::Eol;
use crate::op_greedy_fixed::GreedyFixed;
use crate::op_repeat::Repeat;
use crate::operation::{Operation, OperationControl};
use crate::re_flags::{Language, ReFlags};
use crate::re_matcher::ReMatcher;
use crate::re_program::ReProgram;
use icu_collections::codepointinvlist::CodePointInversionListBuilder;

pub fn fill_stub(_dest: &mut [u8]) -> Result<(), getrandom::Error> {
    Ok(())
}

pub fn format_stub(_args: std::fmt::Arguments<'_>) -> String {
    String::new()
}

fn prog(op: Operation, flags: &str, minlen: usize) -> ReProgram {
    ReProgram {
        pattern: Vec::new(),
        operation: op,
        flags: ReFlags::new(flags, Language::XPath).unwrap(),
        prefix: None,
        initial_char_class: None,
        preconditions: Vec::new(),
        minimum_length: minlen,
        optimization_flags: 0,
        max_parens: Some(1),
        backtracking_limit: None,
    }
}

fn sym_chars(n: usize) -> Vec<char> {
    let len: usize = kani::any();
    kani::assume(len <= n);
    let mut v = Vec::with_capacity(n);
    for i in 0..n {
        if i < len {
            let c: char = kani::any();
            v.push(c);
        }
    }
    v
}

// U1: flags parser, symbolic up to 3 ASCII chars
#[kani::proof]
#[kani::stub(alloc::alloc::Global::deallocate_impl_runtime, noop_dealloc2)]
#[kani::stub(alloc::fmt::format, format_stub)]
#[kani::unwind(5)]
fn u1_flags() {
    let mut s = String::new();
    let len: usize = kani::any();
    kani::assume(len <= 3);
    let mut ok = true;
    let mut after = false;
    for i in 0..3 {
        if i < len {
            let b: u8 = kani::any();
            kani::assume(b < 128);
            s.push(b as char);
            let c = b as char;
            if !after {
                if c == ';' { after = true; }
                else if !(c == 'i' || c == 'm' || c == 's' || c == 'x' || c == 'q') { ok = false; }
            } else if !(c == 'g' || c == 'k' || c == 'K') { ok = false; }
        }
    }
    let r = ReFlags::new(&s, Language::XPath);
    assert_eq!(r.is_ok(), ok);
}

// U2: nesting table never panics on arbitrary pattern text (expected to FAIL today)
#[kani::proof]
#[kani::stub(alloc::alloc::Global::deallocate_impl_runtime, noop_dealloc2)]
#[kani::stub(getrandom::fill, fill_stub)]
#[kani::unwind(5)]
fn u2_nesting_table() {
    let v = sym_chars(3);
    let t = AnalyzeIter::compute_nesting_table(&v);
    std::mem::forget(t);
}

// U3: Bol / Eol position tests
#[kani::proof]
#[kani::stub(alloc::alloc::Global::deallocate_impl_runtime, noop_dealloc2)]
#[kani::stub(getrandom::fill, fill_stub)]
#[kani::unwind(5)]
fn u3_bol_eol() {
    let multi: bool = kani::any();
    let p = prog(Operation::from(Bol), if multi { "m" } else { "" }, 0);
    let mut m = ReMatcher::new(&p, "");
    m.search = sym_chars(3);
    let pos: usize = kani::any();
    kani::assume(pos <= m.search.len());
    let n = m.search.len();
    let got_bol = Operation::from(Bol).matches_iter(&m, pos).next();
    let want_bol = pos == 0 || (multi && pos < n && m.search[pos - 1] == '\n');
    assert_eq!(got_bol, if want_bol { Some(pos) } else { None });
    let got_eol = Operation::from(Eol).matches_iter(&m, pos).next();
    let want_eol = pos == n || (multi && m.search[pos] == '\n');
    assert_eq!(got_eol, if want_eol { Some(pos) } else { None });
    std::mem::forget(m);
}

// U5: equal_case_blind on Latin-1/ASCII vs arithmetic oracle
#[kani::proof]
#[kani::stub(alloc::alloc::Global::deallocate_impl_runtime, noop_dealloc2)]
#[kani::stub(getrandom::fill, fill_stub)]
#[kani::unwind(5)]
fn u5_case_blind_ascii() {
    let p = prog(Operation::from(Bol), "i", 0);
    let m = ReMatcher::new(&p, "");
    let a: char = kani::any();
    let b: char = kani::any();
    kani::assume((a as u32) < 128 && (b as u32) < 128);
    let la = if a.is_ascii_uppercase() { ((a as u8) + 32) as char } else { a };
    let lb = if b.is_ascii_uppercase() { ((b as u8) + 32) as char } else { b };
    assert_eq!(m.equal_case_blind(a, b), la == lb);
    std::mem::forget(m);
}

// U5b: equal_case_blind, any chars: reflexive+symmetric, and identical chars always equal
#[kani::proof]
#[kani::stub(alloc::alloc::Global::deallocate_impl_runtime, noop_dealloc2)]
#[kani::stub(getrandom::fill, fill_stub)]
#[kani::unwind(5)]
fn u5b_case_blind_any() {
    let p = prog(Operation::from(Bol), "i", 0);
    let m = ReMatcher::new(&p, "");
    let a: char = kani::any();
    let b: char = kani::any();
    assert_eq!(m.equal_case_blind(a, b), m.equal_case_blind(b, a));
    assert!(m.equal_case_blind(a, a));
    std::mem::forget(m);
}

// U8: reluctant variable repeat terminates (expected to FAIL unwinding today)
#[kani::proof]
#[kani::stub(alloc::alloc::Global::deallocate_impl_runtime, noop_dealloc2)]
#[kani::stub(getrandom::fill, fill_stub)]
#[kani::unwind(6)]
fn u8_reluctant_repeat_terminates() {
    let min: usize = kani::any();
    kani::assume(min <= 2);
    let op = Operation::from(Repeat::new(Operation::from(Atom::new(vec!['a'])), min, usize::MAX, false));
    let p = prog(Operation::from(Bol), "", 0);
    let mut m = ReMatcher::new(&p, "");
    m.search = sym_chars(2);
    let mut it = op.matches_iter(&m, 0);
    let first = it.next();
    let _ = first;
    std::mem::forget(it);
    std::mem::forget(m);
}

// U9: greedy fixed arithmetic never overflows for any bounds
#[kani::proof]
#[kani::stub(alloc::alloc::Global::deallocate_impl_runtime, noop_dealloc2)]
#[kani::stub(getrandom::fill, fill_stub)]
#[kani::unwind(5)]
fn u9_greedy_fixed_overflow() {
    let min: usize = kani::any();
    let max: usize = kani::any();
    kani::assume(min <= max && max >= 1);
    let op = Operation::from(GreedyFixed::new(Operation::from(Atom::new(vec!['a', 'b'])), min, max, 2));
    let p = prog(Operation::from(Bol), "", 0);
    let mut m = ReMatcher::new(&p, "");
    m.search = sym_chars(2);
    let mut it = op.matches_iter(&m, 0);
    let _ = it.next();
    std::mem::forget(it);
    std::mem::forget(m);
}

// U10: class membership: [c1-c2] built through builder vs arithmetic
#[kani::proof]
#[kani::stub(alloc::alloc::Global::deallocate_impl_runtime, noop_dealloc2)]
#[kani::unwind(8)]
fn u10_class_range() {
    let c1: char = kani::any();
    let c2: char = kani::any();
    kani::assume(c1 <= c2);
    let x: char = kani::any();
    let mut b = CodePointInversionListBuilder::new();
    b.add_range(&(c1..=c2));
    let cc = CharacterClass::new(b.build());
    assert_eq!(cc.contains(x), c1 <= x && x <= c2);
}

// U7: tokenize/analyze/replace partition with bare CharClass program
#[kani::proof]
#[kani::stub(alloc::alloc::Global::deallocate_impl_runtime, noop_dealloc2)]
#[kani::stub(getrandom::fill, fill_stub)]
#[kani::unwind(5)]
fn u7_replace_bare_atom() {
    let p = prog(Operation::from(Atom::new(vec!['a'])), "", 1);
    let mut m = ReMatcher::new(&p, "");
    m.search = sym_chars(2);
    let n = m.search.len();
    let repl = vec!['$', '0'];
    let out = m.replace(&repl).unwrap();
    assert_eq!(out.len(), n);
    for i in 0..2 { if i < n { assert_eq!(out[i], m.search[i]); } }
    std::mem::forget(m);
}

#[kani::proof]
#[kani::stub(alloc::alloc::Global::deallocate_impl_runtime, noop_dealloc2)]
#[kani::unwind(3)]
fn w1_vec_new_drop() {
    let v: Vec<Box<dyn Iterator<Item = usize>>> = Vec::new();
    let p: Vec<usize> = Vec::new();
    let g: bool = kani::any();
    if g {
        let _x = (v, p);
    }
}

#[kani::proof]
#[kani::stub(alloc::alloc::Global::deallocate_impl_runtime, noop_dealloc2)]
#[kani::stub(getrandom::fill, fill_stub)]
#[kani::unwind(6)]
fn w2_reluctant_concrete() {
    let op = Operation::from(Repeat::new(Operation::from(Atom::new(vec!['a'])), 0, usize::MAX, false));
    let p = prog(Operation::from(Bol), "", 0);
    let mut m = ReMatcher::new(&p, "");
    m.search = vec!['a'];
    let mut it = op.matches_iter(&m, 0);
    assert_eq!(it.next(), Some(0));
    std::mem::forget(it);
    std::mem::forget(m);
}

struct G { its: Vec<Box<dyn Iterator<Item = usize>>>, pos: Vec<usize> }
impl Iterator for G { type Item = usize; fn next(&mut self) -> Option<usize> { self.pos.pop() } }
fn f5(g: bool, bound: usize) -> Box<dyn Iterator<Item = usize>> {
    let mut its: Vec<Box<dyn Iterator<Item = usize>>> = Vec::new();
    let mut pos = Vec::new();
    if g {
        for _i in 0..bound {
            let mut it: Box<dyn Iterator<Item = usize>> = Box::new(std::iter::once(1));
            if let Some(n) = it.next() { its.push(it); pos.push(n); } else if its.is_empty() { return Box::new(std::iter::empty()); } else { break; }
        }
        Box::new(G { its, pos })
    } else {
        Box::new(std::iter::empty())
    }
}

#[kani::proof]
#[kani::stub(alloc::alloc::Global::deallocate_impl_runtime, noop_dealloc2)]
#[kani::unwind(4)]
fn w5_dropflag_repro() {
    let mut it = f5(false, 2);
    assert_eq!(it.next(), None);
}

#[kani::proof]
#[kani::stub(alloc::alloc::Global::deallocate_impl_runtime, noop_dealloc2)]
#[kani::stub(getrandom::fill, fill_stub)]
#[kani::unwind(6)]
fn w6_greedy_concrete() {
    let op = Operation::from(Repeat::new(Operation::from(Atom::new(vec!['a'])), 0, usize::MAX, true));
    let p = prog(Operation::from(Bol), "", 0);
    let mut m = ReMatcher::new(&p, "");
    m.search = vec!['a'];
    let mut it = op.matches_iter(&m, 0);
    assert_eq!(it.next(), Some(1));
    std::mem::forget(it);
    std::mem::forget(m);
}

// U12: tokenize-like scan + analyze with bare CharClass program over symbolic input
#[kani::proof]
#[kani::stub(alloc::alloc::Global::deallocate_impl_runtime, noop_dealloc2)]
#[kani::stub(getrandom::fill, fill_stub)]
#[kani::unwind(5)]
fn u12_analyze_bare_class() {
    let mut b = CodePointInversionListBuilder::new();
    b.add_char(',');
    let p = prog(Operation::from(CharClass::new(CharacterClass::new(b.build()))), "", 1);
    let mut m = ReMatcher::new(&p, "");
    m.search = sym_chars(2);
    let n = m.search.len();
    let pat: Vec<char> = vec![','];
    let mut it = AnalyzeIter::new(&pat, m);
    let mut total = 0usize;
    let mut count = 0usize;
    for _ in 0..4 {
        match it.next() {
            Some(crate::AnalyzeEntry::NonMatch(s)) => { total += s.chars().count(); count += 1; }
            Some(crate::AnalyzeEntry::Match(_)) => { total += 1; count += 1; }
            None => {}
        }
    }
    assert!(it.next().is_none());
    assert_eq!(total, n);
    assert!(count <= 2 * n + 1);
    std::mem::forget(it);
}

// U13: replacement expansion against bare atom program: symbolic replacement of length <= 2
#[kani::proof]
#[kani::stub(alloc::alloc::Global::deallocate_impl_runtime, noop_dealloc2)]
#[kani::stub(getrandom::fill, fill_stub)]
#[kani::stub(alloc::fmt::format, format_stub)]
#[kani::unwind(5)]
fn u13_replacement_syntax() {
    let p = prog(Operation::from(Atom::new(vec!['a'])), "", 1);
    let mut m = ReMatcher::new(&p, "");
    m.search = vec!['a'];
    let repl = sym_chars(2);
    let r = m.replace(&repl);
    // reference: valid iff every '$' is followed by a digit and every '\' by '$' or '\'
    let mut valid = true;
    let mut i = 0;
    while i < repl.len() {
        let c = repl[i];
        if c == '\\' {
            if i + 1 >= repl.len() || !(repl[i + 1] == '\\' || repl[i + 1] == '$') { valid = false; break; }
            i += 2;
        } else if c == '$' {
            if i + 1 >= repl.len() || !repl[i + 1].is_ascii_digit() { valid = false; break; }
            i += 2;
        } else { i += 1; }
    }
    assert_eq!(r.is_ok(), valid);
    std::mem::forget(m);
}

pub unsafe fn noop_dealloc(_ptr: *mut u8, _layout: std::alloc::Layout) {}
pub fn noop_dealloc2(_ptr: std::ptr::NonNull<u8>, _layout: std::alloc::Layout) {}

#[kani::proof]
#[kani::stub(getrandom::fill, fill_stub)]
#[kani::stub(alloc::alloc::Global::deallocate_impl_runtime, noop_dealloc2)]
#[kani::unwind(6)]
fn w7_reluctant_concrete_nodealloc() {
    let op = Operation::from(Repeat::new(Operation::from(Atom::new(vec!['a'])), 0, usize::MAX, false));
    let p = prog(Operation::from(Bol), "", 0);
    let mut m = ReMatcher::new(&p, "");
    m.search = vec!['a'];
    let mut it = op.matches_iter(&m, 0);
    assert_eq!(it.next(), Some(0));
    assert_eq!(it.next(), Some(1));
    std::mem::forget(it);
    std::mem::forget(m);
}
