use regexml::Regex;
use std::panic::catch_unwind;
fn t(name: &str, f: impl FnOnce() -> String + std::panic::UnwindSafe) {
    match catch_unwind(f) { Ok(s) => println!("{name}: {s}"), Err(_) => println!("{name}: PANIC") }
}
fn main() {
    std::panic::set_hook(Box::new(|_| {}));
    t("D3 huge bound followed by a", || { let r = Regex::xpath("(?:ab){1,18446744073709551614}a", "").unwrap(); format!("{:?}", r.is_match("ababa")) });
    t("D3b in group", || { let r = Regex::xpath("((?:ab){1,9223372036854775808})", "").unwrap(); format!("{:?}", r.is_match("abab")) });
    t("D3c reluctant", || { let r = Regex::xpath("(?:ab){1,18446744073709551614}?a", "").unwrap(); format!("{:?}", r.is_match("ababa")) });
}
