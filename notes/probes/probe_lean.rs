#![allow(unused)]
use crate::op_atom::Atom;
use crate::op_bol::Bol;
use crate::op_eol::Eol;
use crate::operation::{Operation, OperationControl};
use crate::re_flags::{Language, ReFlags};
use crate::re_matcher::ReMatcher;
use crate::re_program::ReProgram;
use crate::regex::Regex;

pub fn fill_stub(_dest: &mut [u8]) -> Result<(), getrandom::Error> { Ok(()) }
pub fn format_stub(_args: std::fmt::Arguments<'_>) -> String { String::new() }
pub fn noop_dealloc2(_ptr: std::ptr::NonNull<u8>, _layout: std::alloc::Layout) {}

fn prog_with(op: Operation, flags: ReFlags, minlen: usize) -> ReProgram {
    ReProgram {
        pattern: Vec::new(), operation: op, flags, prefix: None, initial_char_class: None,
        preconditions: Vec::new(), minimum_length: minlen, optimization_flags: 0,
        max_parens: Some(1), backtracking_limit: None,
    }
}

fn sym_chars3() -> (Vec<char>, usize) {
    let len: usize = kani::any();
    kani::assume(len <= 3);
    let mut v = Vec::with_capacity(3);
    for i in 0..3 { if i < len { let c: char = kani::any(); v.push(c); } }
    (v, len)
}

// lean Bol/Eol, multi-line variant only
#[kani::proof]
#[kani::stub(getrandom::fill, fill_stub)]
#[kani::stub(alloc::fmt::format, format_stub)]
#[kani::stub(alloc::alloc::Global::deallocate_impl_runtime, noop_dealloc2)]
#[kani::unwind(5)]
fn x1_bol_eol_lean_m() {
    let flags = match ReFlags::new("m", Language::XPath) { Ok(f) => f, Err(_) => return };
    let p = prog_with(Operation::from(Bol), flags, 0);
    let mut m = ReMatcher::new(&p, "");
    let (v, len) = sym_chars3();
    m.search = v;
    let pos: usize = kani::any();
    kani::assume(pos <= len);
    let got_bol = Bol.matches_iter(&m, pos).next();
    let want_bol = pos == 0 || (pos < len && m.search[pos - 1] == '\n');
    assert!(got_bol == if want_bol { Some(pos) } else { None });
    let got_eol = Eol.matches_iter(&m, pos).next();
    let want_eol = pos == len || m.search[pos] == '\n';
    assert!(got_eol == if want_eol { Some(pos) } else { None });
    kani::cover!(want_bol && pos > 0, "bol after newline");
    kani::cover!(want_eol && pos < len, "eol before newline");
    std::mem::forget(m);
    std::mem::forget(p);
}

// lean tokenize on bare Atom program through the public iterator
#[kani::proof]
#[kani::stub(getrandom::fill, fill_stub)]
#[kani::stub(alloc::fmt::format, format_stub)]
#[kani::stub(alloc::alloc::Global::deallocate_impl_runtime, noop_dealloc2)]
#[kani::unwind(5)]
fn x2_tokenize_lean() {
    let flags = match ReFlags::new("", Language::XPath) { Ok(f) => f, Err(_) => return };
    let p = prog_with(Operation::from(Atom::new(vec![','])), flags, 1);
    let mut m = ReMatcher::new(&p, "");
    let len: usize = kani::any();
    kani::assume(len <= 2);
    let mut v = Vec::with_capacity(2);
    for i in 0..2 { if i < len { let c: char = kani::any(); kani::assume((c as u32) < 128); v.push(c); } }
    m.search = v;
    let mut commas = 0;
    for i in 0..2 { if i < len && m.search[i] == ',' { commas += 1; } }
    let mut it = crate::regex::TokenIter::verif_new(m, Some(0));
    let mut n = 0;
    let mut total = 0;
    for _ in 0..4 {
        if let Some(t) = it.next() { n += 1; total += t.len(); std::mem::forget(t); }
    }
    assert!(n == commas + 1);
    assert!(total + commas == len);
    kani::cover!(commas == 2, "two adjacent matches");
    std::mem::forget(it);
    std::mem::forget(p);
}
