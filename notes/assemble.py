import subprocess
tab=subprocess.run(["python3","/verif/selftest/mktable.py"],capture_output=True,text=True).stdout
t=open('/verif/notes/design_tail.md').read()
summary='''
Quick tier: **18 of 30 caught** (C02-b, C03-a, C03-b, C05-b, C06-a, C07-a, C11-a, C11-b, C12-a, C13-a, C13-b, C14-a, C15-a,
C17-a, C17-b, C19-a, C19-b, C20-a).  Four more (C02-a; C01-b = C08-b = C12-b, the same change found three times independently)
are encoded only by the two unregistered deep harnesses, which were shown to pass on the unchanged tree but were NOT run against
these seeds (each run costs 30-60 min and 20+ GB).  Eight are missed: C01-a (inconclusive: the harness reaches the changed line but
cannot finish), C05-a, C06-b, C07-b, C08-a, C14-b, C15-b, C20-b.  No check raised an alarm on the unchanged tree.
'''
t=t.replace("@@SEED_TABLE@@", tab+summary)
open('/verif/DESIGN.md','w').write(open('/verif/notes/design_head.md').read()+t)
print(len(t))
